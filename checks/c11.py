"""C11: no input file can crash, hang or corrupt the reader.
(1) libFuzzer target harness/fuzz_read.c (clang ASan+UBSan) seeded with grammar-generated files and token-level mutants;
(2) the same kind of corpus through QSread_prob / QSread_basis on real plain/.gz/.bz2 files with the qsdrive driver (gcc ASan+UBSan)."""
import bz2, gzip, os, re, shutil, subprocess, sys
sys.path.insert(0, os.path.dirname(os.path.dirname(os.path.abspath(__file__))))
from vlib import run, iofmt, mutate, model
from checks import iofam, c20, c07


def seed_file(tier, seed, k):
    """-> bytes of one corpus entry: selector byte + content"""
    rnd = run.rng("C11", tier, seed, "corpus", k)
    kind = rnd.random()
    sel = rnd.randrange(32)
    if kind < 0.2:
        sel = (sel & ~3) | 2
        text = c20.basis_text(rnd).replace("c07", "base")
        text = re.sub(r"\b([xyzw])\b", lambda m: "x%d" % rnd.randint(1, 8), text)
        text = re.sub(r"\bc([123])\b", lambda m: "c%d" % rnd.randint(1, 6), text)
        if rnd.random() < 0.7:
            text = mutate.mutate(text, rnd)
    else:
        m = iofam.io_model(rnd, rnd.choice(["plain", "plain", "names", "bignum"]))
        lp = rnd.random() < 0.5
        text, _ = (iofmt.lp_text if lp else iofmt.mps_text)(m, rnd)
        sel = (sel & ~3) | (0 if lp else 1)
        if rnd.random() < 0.75:
            for _ in range(rnd.choice([1, 1, 2])):
                text = mutate.semantic_error(text, "LP" if lp else "MPS", rnd) if rnd.random() < 0.2 else mutate.mutate(text, rnd)
    data = mutate.to_bytes(text)[:65000]
    return bytes([sel]) + data


_COV = re.compile(r"cov: (\d+) ft: (\d+)")


def fuzz_job(payload):
    tier, seed, job, runs, nseeds, bindir = (payload[k] for k in ("tier", "seed", "job", "runs", "nseeds", "bindir"))
    wd = run.workdir("C11-fuzz-%d" % job)
    part = dict(evaluations=0, distinct=[], counters={}, violations=[], inconclusive=[], samples=[], max={})
    cnt = part["counters"]
    try:
        corp = os.path.join(wd, "corpus")
        os.makedirs(corp)
        hs = set()
        for k in range(job * nseeds, (job + 1) * nseeds):
            d = seed_file(tier, seed, k)
            open(os.path.join(corp, "s%06d" % k), "wb").write(d)
            hs.add(run.h(d))
        art = os.path.join(wd, "art-")
        env = dict(os.environ)
        env["ASAN_OPTIONS"] = "abort_on_error=1:detect_leaks=0:allocator_may_return_null=1:quarantine_size_mb=8:malloc_context_size=8:symbolize=1"
        env["UBSAN_OPTIONS"] = "print_stacktrace=1:halt_on_error=1"
        cmd = [os.path.join(bindir, "fuzz_read"), "-seed=%d" % (seed * 1000 + job + 1), "-runs=%d" % runs, "-max_len=65536", "-timeout=25", "-rss_limit_mb=6000",
               "-artifact_prefix=" + art, "-print_final_stats=1", "-len_control=0", corp]
        try:
            p = subprocess.run(cmd, cwd=wd, env=env, stdout=subprocess.PIPE, stderr=subprocess.STDOUT, timeout=3600)
            rc, out = p.returncode, p.stdout.decode("latin-1")
        except subprocess.TimeoutExpired as e:
            rc, out = None, (e.stdout or b"").decode("latin-1")
        m = re.search(r"stat::number_of_executed_units: (\d+)", out)
        nexec = int(m.group(1)) if m else 0
        part["evaluations"] = nexec
        part["distinct"] = sorted(hs)
        cnt["fuzz-jobs"] = 1
        cnt["fuzz-seed-files"] = nseeds
        cov = _COV.findall(out)
        if cov:
            part["max"]["libfuzzer_cov_edges"] = int(cov[-1][0])
            part["max"]["libfuzzer_features"] = int(cov[-1][1])
        if rc is None:
            part["inconclusive"].append("fuzz job %d exceeded the wall-clock watchdog" % job)
        elif rc != 0:
            arts = [n for n in os.listdir(wd) if n.startswith("art-")]
            kind = "crash"
            if "FUZZ-FINDING:" in out:
                kind = "finding:" + re.search(r"FUZZ-FINDING: ([^\n]*)", out).group(1)[:60]
            elif "ERROR: libFuzzer: timeout" in out or any("timeout" in a for a in arts):
                kind = "hang"
            cr = run.triage(out[out.find("ERROR"):] if "ERROR" in out else out[-3000:], rc)
            key = "C11|fuzz|%s|%s" % (kind if kind != "crash" else cr["kind"], ">".join(cr["frames"]))
            files = {}
            for a in arts[:1]:
                files["fuzz-input"] = open(os.path.join(wd, a), "rb").read()
            c = run.Case("C11-fuzz-%d" % job, ["# fuzz_read artifact: run `fuzz_read <file>`"], dict(kind="fuzz", job=job), files)
            what = "libFuzzer job %d stopped (rc %r, %s):\n%s" % (job, rc, kind, out[-2500:])
            part["violations"].append(dict(key=key, what=what, replay=run.save_replay("C11", c, what)))
        if not part["samples"]:
            d = seed_file(tier, seed, job * nseeds)
            part["samples"].append(dict(mode="fuzz", selector=d[0], seed_file_head=d[1:300].decode("latin-1")))
    finally:
        run.cleanup(wd)
    return part


def file_case(tier, seed, k):
    """real files (plain/.gz/.bz2) through the public file readers"""
    rnd = run.rng("C11", tier, seed, "files", k)
    d = seed_file(tier, seed + 777, k)
    sel, data = d[0], d[1:]
    comp = rnd.choice(["", "", ".gz", ".bz2"])
    if comp == ".gz":
        raw = gzip.compress(data)
    elif comp == ".bz2":
        raw = bz2.compress(data)
    else:
        raw = data
    if rnd.random() < 0.05:
        raw = raw[:rnd.randrange(len(raw) + 1)]        # truncated compressed stream
    cid = "C11-file-%d" % k
    if (sel & 3) == 2:
        setup, R, C = c07.setup("loaded")
        fn = "b%d.bas%s" % (k, comp)
        L = setup + ["set_param p0 5 50", rnd.choice(["read_basis p0 @W@/%s b0" % fn, "read_and_load_basis p0 @W@/%s" % fn]), "load_basis p0 b0", "opt_dual p0", "dumpsol p0"]
    else:
        fmt = "MPS" if (sel & 3) == 1 else "LP"
        fn = "f%d.%s%s" % (k, fmt.lower(), comp)
        # plain files also go through a caller-supplied line reader with an error memory (with and without kept lines); every
        # collected error is then printed to a stream that belongs to the caller
        via = "read_prob p0 @W@/%s %s" % (fn, fmt) if comp or rnd.random() < 0.5 else "get_prob p0 @W@/%s %s %d" % (fn, fmt, rnd.choice([1, 2]))
        L = [via, "dump p0", "storecheck p0", "write_prob p0 @W@/o%d.lp LP" % k, "write_prob p0 @W@/o%d.mps MPS" % k,
             "set_param p0 5 50", "solve_exact p0 dual - xy", "free p0"]
    return run.Case(cid, L, dict(kind="file", comp=comp), {fn: raw})


def files_chunk(payload):
    tier, seed, start, count, bindir = (payload[k] for k in ("tier", "seed", "start", "count", "bindir"))
    wd = run.workdir("C11-files-%d" % start)
    part = dict(evaluations=0, distinct=[], counters={}, violations=[], inconclusive=[], samples=[])
    cnt = part["counters"]
    try:
        cases = [file_case(tier, seed, k) for k in range(start, start + count)]
        res = run.run_cases(os.path.join(bindir, "qsdrive"), cases, wd, batch=15, timeout=120)
        for c in cases:
            r = res[c.id]
            part["evaluations"] += 1
            part["distinct"].append(run.h(sorted(c.files.items())))
            cnt["files" + c.meta["comp"]] = cnt.get("files" + c.meta["comp"], 0) + 1
            if r.crash:
                what = "reader workload died in %s: %s\n%s" % (r.crash.get("op"), r.crash["kind"], r.crash["text"][:1500])
                part["violations"].append(dict(key="C11|file|%s|%s" % (r.crash["kind"], ">".join(r.crash["frames"])), what=what, replay=run.save_replay("C11", c, what)))
                continue
            if r.timeout:
                what = "reader workload did not return within the watchdog (twice) in %s" % r.begun
                part["violations"].append(dict(key="C11|file|hang|%s" % r.begun, what=what, replay=run.save_replay("C11", c, what)))
                continue
            rd = r.ev("read_prob") or r.ev("get_prob")
            if rd is not None and rd.get("print_closed_stream"):
                what = "QSerror_print closed the FILE* of its caller (after %d prints)" % rd.get("printed", 0)
                part["violations"].append(dict(key="C11|error_print|closes-caller-stream", what=what, replay=run.save_replay("C11", c, what)))
            if rd is not None and rd.get("printed"):
                cnt["errors-printed-to-caller-stream"] = cnt.get("errors-printed-to-caller-stream", 0) + rd["printed"]
            if rd is not None:
                cnt["read:" + ("accepted" if rd.get("rc") == 0 else "rejected")] = cnt.get("read:" + ("accepted" if rd.get("rc") == 0 else "rejected"), 0) + 1
                for msg in rd.get("logs", []):
                    pass
                if rd.get("rc") == 0:
                    sc = r.ev("storecheck")
                    if sc and sc.get("ok") != 1:
                        what = "problem returned by the reader has an inconsistent store: %s" % sc.get("why")
                        part["violations"].append(dict(key="C11|file|inconsistent|%s" % sc.get("why"), what=what, replay=run.save_replay("C11", c, what)))
                    d = r.ev("dump")
                    if d and d.get("rc") == 0:
                        lo, up = d.get("lower") or [], d.get("upper") or []
                        from vlib.rat import parse
                        if any(parse(a) > parse(b) for a, b in zip(lo, up)):
                            what = "reader returned a column with lower > upper"
                            part["violations"].append(dict(key="C11|file|lower>upper", what=what, replay=run.save_replay("C11", c, what)))
                        if len(set(d["colnames"])) != len(d["colnames"]) or len(set(d["rownames"])) != len(d["rownames"]):
                            what = "reader returned duplicate names"
                            part["violations"].append(dict(key="C11|file|duplicate-names", what=what, replay=run.save_replay("C11", c, what)))
                    for w in r.evs("write_prob"):
                        if w.get("rc") != 0 and any("SOS information in LP format" in str(x) for x in w.get("logs", [])):
                            cnt["lp-writer-refuses-sos(documented)"] = cnt.get("lp-writer-refuses-sos(documented)", 0) + 1
                            continue
                        if w.get("rc") != 0:
                            what = "a problem returned by the reader cannot be written: rc=%r %s" % (w.get("rc"), w.get("logs", [])[:3])
                            part["violations"].append(dict(key="C11|file|unwritable", what=what, replay=run.save_replay("C11", c, what)))
                            break
            if not part["samples"]:
                part["samples"].append(dict(mode="files", script=c.script[-7:], file_head=list(c.files.values())[0][:200].decode("latin-1")))
    finally:
        run.cleanup(wd)
    return part


def dispatch(p):
    return globals()[p[0]](p[1])


RULE = ("(1) libFuzzer (clang 14, ASan+UBSan, GMP on malloc) on fuzz_read: selector byte picks LP / MPS reader through an in-memory line reader (with error collector or "
        "log handler) or QSread_basis / QSread_and_load_basis against a fixed 6x8 problem; seeds = grammar-generated LP/MPS/basis texts and their token/line/byte-level "
        "mutants (truncations, p/0, 400-digit numbers, sign runs, 70 kB names, NUL/control bytes, CRLF, no final newline); a returned problem must have l<=u, unique names, "
        "consistent rows/nzcount, be writable as LP and MPS, solvable (50 iterations) and freeable; exit() from the library, timeouts (25 s) and sanitizer reports are findings; "
        "inputs with exponents of more than 4 digits are skipped; (2) the same kind of corpus as real plain/.gz/.bz2 (also truncated) files through QSread_prob/QSread_basis "
        "(plain files half of the time through QSget_prob with an error memory, with and without kept lines, every collected error printed twice to a stream of the caller that has to stay open) with the gcc ASan+UBSan driver; evaluations = fuzz executions + file cases; distinct = distinct seed/corpus files")


def run_check(prop, tier, seed):
    b = run.builds(["fuzz", "asan"])
    rep = run.Report(prop, tier, seed, RULE)
    q = tier == "quick"
    njobs, runs, nseeds = (16, 6000, 220) if q else (48, 150000, 900)
    payloads = [("fuzz_job", dict(tier=tier, seed=seed, job=j, runs=runs, nseeds=nseeds, bindir=b["fuzz"])) for j in range(njobs)]
    nfiles = 1500 if q else 30000
    for s in range(0, nfiles, 50):
        payloads.append(("files_chunk", dict(tier=tier, seed=seed, start=s, count=min(50, nfiles - s), bindir=b["asan"])))
    for part in run.pool_map("checks.c11", "dispatch", payloads):
        rep.merge(part)
    return rep.finish(floor=5000)


def replay(prop, path):
    b = run.builds(["fuzz", "asan"])
    case, d = run.load_replay(path)
    wd = run.workdir("replayC11")
    rc = 0
    try:
        if "fuzz-input" in case.files:
            fp = os.path.join(wd, "input")
            open(fp, "wb").write(case.files["fuzz-input"])
            p = subprocess.run([os.path.join(b["fuzz"], "fuzz_read"), "-timeout=25", fp], cwd=wd, stdout=subprocess.PIPE, stderr=subprocess.STDOUT)
            if p.returncode != 0:
                print("VIOLATION property=C11 replay=%s\n%s" % (path, p.stdout.decode("latin-1")[-2500:]))
                rc = 1
        else:
            res = run.run_cases(os.path.join(b["asan"], "qsdrive"), [case], wd, batch=1)
            r = res[case.id]
            if r.crash or r.timeout:
                print("VIOLATION property=C11 replay=%s\n%s" % (path, (r.crash or {}).get("text", "hang")[:2500]))
                rc = 1
    finally:
        run.cleanup(wd)
    if not rc:
        print("replay: no violation reproduced")
    return rc
