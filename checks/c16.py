"""C16: copies are faithful and independent (QScopy_prob; QScopy_prob_mpq_dbl / _mpf entry by entry)."""
import math, os, sys
from fractions import Fraction as F
sys.path.insert(0, os.path.dirname(os.path.dirname(os.path.abspath(__file__))))
from vlib import run, gen_lp, gen_hist, model, iofmt, script as vscript
from vlib.model import render
from vlib.rat import INF, NINF, parse, isinf
from checks import solvefam as sf, iofam

VOL = {"seq", "logs", "logn", "lognull", "hk", "hkn", "lu_dbl", "lu_mpf", "lu_mpq", "probname", "op"}
SOLVES = ["solve_exact %s dual - -", "opt_primal %s", "opt_dual %s"]


def base_model(rnd):
    t = rnd.random()
    if t < 0.1:
        return model.LP("empty", rnd.choice([model.MIN, model.MAX]))
    m = iofam.io_model(rnd, "noint")
    return m


def gen_copy_case(tier, seed, k):
    rnd = run.rng("C16", tier, seed, "copy", k)
    m = base_model(rnd)
    files = {}
    if rnd.random() < 0.3 and m.nrows and m.ncols:
        # the original comes from a file: this is the only way to have integer marks (and SOS sets) on a problem
        m = iofam.io_model(rnd, "plain")
        lp = rnd.random() < 0.5
        text, exp = (iofmt.lp_text(m, rnd, allnamed=True) if lp else iofmt.mps_text(m, rnd))
        if any(r.name is None for r in exp.rows) or any(c.name is None for c in exp.cols):
            text, exp = iofmt.mps_text(m, rnd)
            lp = False
        fn = ("src%d.lp" if lp else "src%d.mps") % k
        files[fn] = text.encode()
        m = exp
        L = ["read_prob p0 @W@/%s %s" % (fn, "LP" if lp else "MPS"), "dumpx p0"]
    else:
        L = model.script_any(m, "p0", rnd)
    cfg = sf.rnd_config(rnd, limits=False, bases=False)
    cfg["entry"] = "opt_primal"
    L += sf.param_lines(cfg, "p0")
    if rnd.random() < 0.5:
        L.append("set_param p0 5 %d" % rnd.choice([7, 1234, 3000]))
    if rnd.random() < 0.3:
        L.append("set_param_num p0 6 %d" % rnd.choice([5, 100]))
    lim = rnd.random() < 0.5
    if lim:
        # objective limits (stop rule of the dual simplex): part of the parameters a copy has to carry *and* obey
        L.append("set_param_num p0 %d %d/7" % (8 if m.objsense == model.MIN else 9, rnd.randint(-300, 300)))
        if rnd.random() < 0.3:
            L.append("set_param_num p0 %d %d/7" % (9 if m.objsense == model.MIN else 8, rnd.randint(-300, 300)))
    presolved = rnd.random() < (0.2 if lim else 0.5) and m.nrows
    if presolved:
        L.append(rnd.choice(SOLVES) % "p0")
    L += ["copy p0 p1 thecopy", "dumpx p0", "dumpx p1", "storecheck p1"]
    objrow = not files and rnd.random() < 0.25 and "obj" not in [x.name for x in m.rows + m.cols]
    if objrow:
        # the name "obj" is free in a problem built through the API: it must be just as free in its copy
        L += ["new_row p0 1 L obj", "new_row p1 1 L obj"]
        m.apply(("new_row", F(1), "L", "obj"))
    twins = []
    if not presolved and m.nrows and rnd.random() < 0.8:
        # original and copy, both unsolved, are given the same solve: same status and value expected
        sv = rnd.choice(["opt_dual %s", "opt_dual %s", "opt_primal %s"])
        twins.append(len(L))
        L += [sv % "p0", "dumpsol p0", sv % "p1", "dumpsol p1"]
    gm = {"p0": m, "p1": m.clone()}
    nms = {"p0": gen_hist.Namer(), "p1": gen_hist.Namer()}
    nms["p1"].r = nms["p1"].c = 5000
    alive = {"p0", "p1"}
    for step in range(rnd.randint(3, 14)):
        if not alive:
            break
        s = rnd.choice(sorted(alive))
        t = rnd.random()
        if t < 0.55:
            op = None
            for _ in range(10):
                # the column order and the dropped empty rows of a problem read from a file are the reader's business (C10):
                # index-based edits cannot be generated offline for it, appended columns can
                op = gen_hist.rnd_edit(rnd, gm[s], nms[s], 0.55, [("new_col", 1)] if files else None)
                if op is not None:
                    break
            if op is None:
                continue
            if files and op[-1] is not None:
                op = op[:-1] + ("ZQ" + op[-1],)
            gm[s].apply(op)
            L.append(render(op, s))
        elif t < 0.75:
            L.append(rnd.choice(SOLVES) % s)
        elif t < 0.85 and len(alive) < 3:
            d = [x for x in ("p0", "p1", "p2") if x not in alive][0]
            L.append("copy %s %s again" % (s, d))
            gm[d] = gm[s].clone()
            nms[d] = gen_hist.Namer()
            nms[d].r = nms[d].c = 9000 + step * 100
            alive.add(d)
        elif t < 0.95 and len(alive) > 1:
            L.append("free %s" % s)
            alive.discard(s)
            continue
        for a in sorted(alive):
            L.append("dump %s" % a)
    for a in sorted(alive):
        L += ["dumpx %s" % a, "storecheck %s" % a]
    return run.Case("C16-copy-%d" % k, L, dict(kind="copy", twins=twins, fromfile=bool(files)), files)


def gen_conv_case(tier, seed, k):
    rnd = run.rng("C16", tier, seed, "conv", k)
    m = iofam.io_model(rnd, rnd.choice(["noint", "noint", "bignum"]))
    for c in m.cols:
        c.isint = 0
    L = model.script_any(m, "p0", rnd)
    cfg = sf.rnd_config(rnd, limits=False, bases=False)
    cfg["entry"] = "opt_primal"
    L += sf.param_lines(cfg, "p0") + ["dumpx p0", "copy_dbl p0"]
    for prec in rnd.sample([64, 128, 192, 256, 512, 1024], 2):
        L.append("copy_mpf p0 %d" % prec)
    L.append("dumpx p0")
    return run.Case("C16-conv-%d" % k, L, dict(kind="conv"))


def strip(ev):
    return {k: v for k, v in ev.items() if k not in VOL}


def ulp(x):
    return math.ulp(abs(x)) if x != 0 else 0.0


def judge(case, res):
    V, C = [], {}
    if res.crash:
        return [(run.crash_key("C16", res.crash), "process died in %s: %s\n%s" % (res.crash.get("op"), res.crash["kind"], res.crash["text"][:1500]))], {"crash": 1}
    if res.timeout:
        return [], {"watchdog_inconclusive": 1}
    last = {}
    twins = set((case.meta or {}).get("twins", []))
    tw = {}
    try:
        for ln, cmd, slot, op, ev, models in vscript.walk(case.script, res.events):
            m = models.get(slot)
            for t0 in twins:
                if ln in (t0, t0 + 2):
                    tw[(t0, slot, "solve")] = ev
                elif ln in (t0 + 1, t0 + 3):
                    tw[(t0, slot, "sol")] = ev
                if ln == t0 + 3:
                    s0, s1 = tw.get((t0, "p0", "solve"), {}), tw.get((t0, "p1", "solve"), {})
                    d0, d1 = tw.get((t0, "p0", "sol"), {}), tw.get((t0, "p1", "sol"), {})
                    C["twin-solves"] = C.get("twin-solves", 0) + 1
                    r0 = (s0.get("rc"), s0.get("status"), d0.get("objval") if s0.get("status") == 1 else None)
                    r1 = (s1.get("rc"), s1.get("status"), d1.get("objval") if s1.get("status") == 1 else None)
                    C["twin-status:%s" % sf.ST.get(s0.get("status"), s0.get("status"))] = C.get("twin-status:%s" % sf.ST.get(s0.get("status"), s0.get("status")), 0) + 1
                    # iteration-limit style outcomes depend on the pivot path and are not compared
                    if r0 != r1 and s0.get("status") in (1, 2, 3, 9) and s1.get("status") in (1, 2, 3, 9):
                        V.append(("C16|copy|solves-differently:%s-vs-%s" % (sf.ST.get(s0.get("status"), s0.get("status")), sf.ST.get(s1.get("status"), s1.get("status"))),
                                  "`%s` on the unsolved original gives (rc,status,value)=%r, on its unsolved copy %r" % (case.script[t0], r0, r1)))
            if cmd in vscript.EDITS:
                C["edits"] = C.get("edits", 0) + 1
                if ev.get("_model_error") or ev.get("rc") != 0:
                    V.append(("C16|%s|valid-edit-rejected" % cmd, "line %d `%s` rc=%r" % (ln, case.script[ln][:160], ev.get("rc"))))
                    break
            elif cmd == "copy":
                C["copies"] = C.get("copies", 0) + 1
                if ev.get("rc") != 0:
                    V.append(("C16|copy|failed", "QScopy_prob returned NULL at line %d" % ln))
                    break
            elif cmd in ("dump", "dumpx"):
                if m is None and (case.meta or {}).get("fromfile") and ev.get("rc") == 0:
                    # a problem read from a file: what the reader delivered is the reference from here on
                    models[slot] = m = model.from_dump(ev)
                    C["fromfile"] = C.get("fromfile", 0) + 1
                    C["fromfile:intcols"] = C.get("fromfile:intcols", 0) + sum(1 for c in m.cols if c.isint)
                bad = model.compare_dump(m, ev)
                if bad:
                    V.append(("C16|%s|%s" % (slot, iofam.hist_cls(bad[0])), "line %d: %s differs from its own model (interference or unfaithful copy): %s" % (ln, slot, "; ".join(bad[:3])[:700])))
                    break
                if cmd == "dumpx":
                    last[slot] = ev
                    if slot == "p1" and "p0" in last and ln > 0 and case.script[ln - 1].startswith("dumpx p0"):
                        a, b = strip(last["p0"]), strip(ev)
                        diff = sorted(k for k in set(a) | set(b) if a.get(k) != b.get(k))
                        if diff:
                            V.append(("C16|copy|differs:%s" % ",".join(diff[:3]), "copy differs from original in %s: %s vs %s" % (diff[:5], [a.get(k) for k in diff[:3]], [b.get(k) for k in diff[:3]])))
                            break
                        C["copy-compared"] = C.get("copy-compared", 0) + 1
            elif cmd == "storecheck" and ev.get("ok") != 1:
                V.append(("C16|storecheck|%s" % ev.get("why"), "store of %s inconsistent: %s" % (slot, ev.get("why"))))
            elif cmd in ("copy_dbl", "copy_mpf"):
                V += judge_conv(cmd, ev, m, last.get(slot), C)
    except ValueError as e:
        raise run.HarnessError(str(e))
    return V, C


def judge_conv(cmd, ev, m, dx, C):
    V = []
    kind = "dbl" if cmd == "copy_dbl" else "mpf%s" % ev.get("prec")
    if ev.get("rc") != 0:
        return [("C16|%s|failed" % cmd, "%s returned NULL" % cmd)]
    C["conv:" + cmd] = C.get("conv:" + cmd, 0) + 1
    if (ev["ncols"], ev["nrows"], ev["nz"], ev["objsense"]) != (m.ncols, m.nrows, m.nz(), m.objsense):
        return [("C16|%s|dimensions" % cmd, "%s: (ncols,nrows,nz,objsense)=%s, model %s" % (kind, (ev["ncols"], ev["nrows"], ev["nz"], ev["objsense"]), (m.ncols, m.nrows, m.nz(), m.objsense)))]
    prec = ev.get("prec")
    if cmd == "copy_dbl":
        inf = float.fromhex(ev["inf"])
        conv = lambda s: float.fromhex(s)
    else:
        conv = parse

    def close(got, exact, what):
        """-> error string or None"""
        if isinf(exact):
            if cmd == "copy_dbl":
                ok = got == (inf if exact > 0 else -inf)
            else:
                ok = got == exact
            return None if ok else "%s: infinite bound mapped to %r" % (what, got)
        if exact == 0:
            return None if got == 0 else "%s: zero mapped to %r" % (what, got)
        if cmd == "copy_dbl":
            if math.isinf(got) or math.isnan(got):
                return "%s: %s mapped to %r" % (what, exact, got)
            d0 = float(exact)
            err = abs(F(got) - exact)
            return None if err <= F(ulp(d0)) else "%s: %s -> %r, off by more than one ulp" % (what, exact, got)
        if isinf(got):
            return "%s: finite %s mapped to infinity" % (what, exact)
        e = 0
        a = abs(exact)
        # 2^(e-1) <= a < 2^e
        e = a.numerator.bit_length() - a.denominator.bit_length()
        if F(2) ** e <= a:
            e += 1
        if F(2) ** (e - 1) > a:
            e -= 1
        err = abs(got - exact)
        return None if err <= F(2) ** (e - prec) else "%s: %s -> %s, error %s exceeds 2^(e-prec) (prec %d)" % (what, exact, got, float(err), prec)

    ci = m.colindex()
    if m.ncols:
        if ev.get("cols_rc") != 0:
            return [("C16|%s|columns-unavailable" % cmd, "%s: get_columns failed on the copy" % kind)]
        cnt, beg, ind, val = ev["cnt"], ev["beg"], ev["ind"], ev["val"]
        for j, c in enumerate(m.cols):
            for key, exact in (("obj", c.obj), ("lower", c.lo), ("upper", c.up)):
                msg = close(conv(ev[key][j]), exact, "%s[%d]" % (key, j))
                if msg:
                    V.append(("C16|%s|%s" % (cmd, key), "%s: %s" % (kind, msg)))
            want = {i: r.coef[c] for i, r in enumerate(m.rows) if c in r.coef}
            got = {ind[t]: conv(val[t]) for t in range(beg[j], beg[j] + cnt[j])}
            if set(got) != set(want):
                V.append(("C16|%s|structure" % cmd, "%s: column %d has rows %s, model %s" % (kind, j, sorted(got), sorted(want))))
                continue
            for i in want:
                msg = close(got[i], want[i], "a[%d,%d]" % (i, j))
                if msg:
                    V.append(("C16|%s|coef" % cmd, "%s: %s" % (kind, msg)))
    if m.nrows:
        if ev.get("senses") != "".join(r.sense for r in m.rows):
            V.append(("C16|%s|senses" % cmd, "%s: senses %r, model %r" % (kind, ev.get("senses"), "".join(r.sense for r in m.rows))))
        for i, r in enumerate(m.rows):
            msg = close(conv(ev["rhs"][i]), r.rhs, "rhs[%d]" % i)
            if msg:
                V.append(("C16|%s|rhs" % cmd, "%s: %s" % (kind, msg)))
            if r.sense == "R" and "range" in ev:
                msg = close(conv(ev["range"][i]), r.range, "range[%d]" % i)
                if msg:
                    V.append(("C16|%s|range" % cmd, "%s: %s" % (kind, msg)))
    if dx is not None and "params" in dx:
        if ev.get("params") != dx["params"]:
            V.append(("C16|%s|params" % cmd, "%s: integer parameters %s differ from the original's %s" % (kind, ev.get("params"), dx["params"])))
    return V[:6]


def chunk(payload):
    tier, seed, kind, start, count, bindir = (payload[k] for k in ("tier", "seed", "kind", "start", "count", "bindir"))
    wd = run.workdir("C16-%s-%d" % (kind, start))
    part = dict(evaluations=0, distinct=[], counters={}, violations=[], inconclusive=[], samples=[])
    cnt = part["counters"]
    try:
        gen = gen_copy_case if kind == "copy" else gen_conv_case
        cases = [gen(tier, seed, k) for k in range(start, start + count)]
        res = run.run_cases(os.path.join(bindir, "qsdrive"), cases, wd, batch=10, timeout=300)
        for c in cases:
            V, C = judge(c, res[c.id])
            part["evaluations"] += 1
            cnt["kind:" + kind] = cnt.get("kind:" + kind, 0) + 1
            for a, b in C.items():
                cnt[a] = cnt.get(a, 0) + b
            part["distinct"].append(run.h(c.script))
            if "watchdog_inconclusive" in C:
                part["inconclusive"].append("watchdog: %s" % c.id)
            for key, what in V:
                part["violations"].append(dict(key=key, what=what, replay=run.save_replay("C16", c, what)))
            if not part["samples"]:
                part["samples"].append(dict(case=c.id, script=c.script[:30]))
    finally:
        run.cleanup(wd)
    return part


RULE = ("copy cases: a problem (incl. empty, ranged rows, non-default parameters, optionally solved) is copied with QScopy_prob; original and copy are dumped "
        "through the whole query API incl. parameters and must be equal; then random interleavings of edits, solves, further copies and frees on the objects, "
        "each object compared with its own reference model after every step (ASan watches for shared state); conversion cases: QScopy_prob_mpq_dbl and "
        "QScopy_prob_mpq_mpf (precisions 64-1024) dumped entry by entry and compared with the rational problem within one ulp, infinities and zeros exactly; "
        "objective limits among the parameters; `twin solves`: the unsolved original and its unsolved copy get the same QSopt_dual/primal (status incl. OBJ_LIMIT and value must agree); 30% of the originals are read from LP/MPS files (integer marks, SOS sets) and then only get appended columns; non-trivial = every case; distinct = hash(script)")


def run_check(prop, tier, seed):
    b = run.builds(["asan"])
    rep = run.Report(prop, tier, seed, RULE)
    q = tier == "quick"
    payloads = []
    for kind, n in (("copy", 240 if q else 8000), ("conv", 300 if q else 6000)):
        for s in range(0, n, 10):
            payloads.append(dict(tier=tier, seed=seed, kind=kind, start=s, count=min(10, n - s), bindir=b["asan"]))
    for part in run.pool_map("checks.c16", "chunk", payloads):
        rep.merge(part)
    return rep.finish(floor=100)


def replay(prop, path):
    b = run.builds(["asan"])
    case, d = run.load_replay(path)
    wd = run.workdir("replayC16")
    try:
        res = run.run_cases(os.path.join(b["asan"], "qsdrive"), [case], wd, batch=1)
        V, C = judge(case, res[case.id])
    finally:
        run.cleanup(wd)
    for key, what in V:
        print("VIOLATION property=C16 replay=%s\n  key: %s\n  what: %s" % (path, key, what[:1500]))
    if not V:
        print("replay: no violation reproduced")
    return 1 if V else 0
