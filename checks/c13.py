"""C13: LU-based solves are exact.  API level: rows of B^-1 and tableau rows multiply back exactly for bases reached by the
rational simplex (stopped at arbitrary iteration counts) and by pivotin calls; component level: ludrive on factor_mpq.h."""
import json, os, subprocess, sys
sys.path.insert(0, os.path.dirname(os.path.dirname(os.path.abspath(__file__))))
from fractions import Fraction as F
from vlib import run, gen_lp, model
from vlib.rat import parse, parse_list, fmt
from checks import solvefam as sf

Z = F(0)


def gen_api_case(tier, seed, k):
    rnd = run.rng("C13", tier, seed, "api", k)
    size = rnd.choice(["small", "small", "medium", "medium", "big"])
    if size == "small":
        m = gen_lp.family(rnd, rnd.choice(["small-rand", "degenerate", "planted-opt", "small-int"]))
    elif size == "medium":
        m = gen_lp.planted_optimal(rnd, rnd.randint(10, 25), rnd.randint(10, 30), "int", dens=0.35)
    else:
        m = gen_lp.planted_optimal(rnd, rnd.randint(30, 60), rnd.randint(30, 70), "int", dens=0.12)
    for j, c in enumerate(m.cols):
        c.name = "C%d" % j
    for i, r in enumerate(m.rows):
        r.name = "R%d" % i
    L = model.script_build(m, "p0", rowwise=rnd.random() < 0.5)
    pp, dp = rnd.choice(sf.PP), rnd.choice(sf.DP)
    L += ["set_param p0 0 %d" % pp, "set_param p0 2 %d" % dp, "set_param p0 7 %d" % rnd.choice([0, 1])]
    algo = rnd.choice(["opt_primal", "opt_dual"])
    mode = rnd.choice(["limit", "limit", "optimal", "pivotin", "nobasis"])
    if mode == "nobasis":
        # queries in states without a loaded simplex basis: nothing solved yet, solved by the exact driver only, or a solve call
        # that short-cut on the stored solution; they must refuse or answer exactly, never read a basis that is not there
        L += ["set_param p0 5 3000"]
        L += rnd.choice([["tableau p0", "tableau_direct p0"],
                         ["solve_exact p0 %s - xy" % rnd.choice(["primal", "dual"]), "tableau p0", "tableau_direct p0"],
                         ["%s p0" % algo, "opt_primal p0", "tableau p0", "tableau_direct p0"],
                         ["%s p0" % algo, "copy p0 p1 cp", "tableau p1", "free p1", "tableau p0"]])
    elif mode == "limit":
        lim = rnd.choice([1, 2, 3, 5, 8, 13, 21, 34, 55, 89])
        L += ["set_param p0 5 %d" % lim, "%s p0" % algo, "tableau_direct p0"]
        # continue the same run in a few more slices: the factorization keeps its update history across calls
        for _ in range(rnd.randint(0, 3)):
            L += ["%s p0" % rnd.choice(["opt_primal", "opt_dual"]), "tableau_direct p0"]
    elif mode == "optimal":
        L += ["set_param p0 5 3000", "%s p0" % algo, "tableau p0", "tableau_direct p0"]
    else:
        L += ["set_param p0 5 3000", "%s p0" % algo, "tableau p0"]
        if m.nrows:
            for _ in range(rnd.randint(1, 3)):
                if rnd.random() < 0.5:
                    lst = rnd.sample(range(m.nrows), rnd.randint(1, min(3, m.nrows)))
                    L += ["pivotin_row p0 %d %s" % (len(lst), " ".join(map(str, lst))), "get_basis_array p0", "tableau p0", "tableau_direct p0"]
                elif m.ncols:
                    lst = rnd.sample(range(m.ncols), rnd.randint(1, min(3, m.ncols)))
                    L += ["pivotin_col p0 %d %s" % (len(lst), " ".join(map(str, lst))), "get_basis_array p0", "tableau p0", "tableau_direct p0"]
    return run.Case("C13-api-%d" % k, L, dict(kind="api", mode=mode)), m


def check_tableau(m, ev):
    """-> list of errors for one tableau record"""
    nc, nr = m.ncols, m.nrows
    if ev.get("rc") != 0:
        return None
    order = ev["order"]
    if sorted(order) != sorted(set(order)) or any(h < 0 or h >= nc + nr for h in order):
        return ["basis order is not a set of %d distinct variables: %s" % (nr, order)]
    sig = []
    for i, r in enumerate(m.rows):
        want = F(1) if r.sense in ("L", "E") else F(-1)
        got = ev["logcoef"][i]
        if got is None or parse(got) != want:
            return ["logical coefficient of row %d is %s, expected %s for sense %s" % (i, got, want, r.sense)]
        sig.append(want)
    ci = m.colindex()
    # full matrix [A | logicals] column access
    cols = []
    for j, c in enumerate(m.cols):
        cols.append({i: r.coef[c] for i, r in enumerate(m.rows) if c in r.coef})
    for i in range(nr):
        cols.append({i: sig[i]})
    bad = []
    for i, row in enumerate(ev["rows"]):
        if row.get("r1") != 0:
            bad.append("binv row %d not available (rc %r) although the basis order is" % (i, row.get("r1")))
            continue
        b = parse_list(row["binv"])
        for j, h in enumerate(order):
            s = sum((b[kk] * a for kk, a in cols[h].items()), Z)
            if s != (1 if i == j else 0):
                bad.append("row %d of B^-1 times basis column %d (variable %d) = %s, expected %d" % (i, j, h, s, 1 if i == j else 0))
                break
        if row.get("r2") == 0 and "tab" in row:
            t = parse_list(row["tab"])
            for h in range(nc + nr):
                s = sum((b[kk] * a for kk, a in cols[h].items()), Z)
                if s != t[h]:
                    bad.append("tableau row %d entry %d = %s, but row_i(B^-1).column = %s" % (i, h, t[h], s))
                    break
        if len(bad) > 3:
            break
    return bad


def judge_api(case, res, m):
    V, C = [], {}
    if res.crash:
        return [(run.crash_key("C13", res.crash), "process died in %s: %s\n%s" % (res.crash.get("op"), res.crash["kind"], res.crash["text"][:1500]))], {"crash": 1}, 0, {}
    if res.timeout:
        return [], {"watchdog_inconclusive": 1}, 0, {}
    n = 0
    run_since = 0
    mx = {}
    lastbas = None
    for ev in res.events:
        op = ev["op"]
        lu = ev.get("lu_mpq")
        if lu:
            C["lu-updates"] = C.get("lu-updates", 0) + lu["upd"]
            C["lu-factorizations"] = C.get("lu-factorizations", 0) + lu["fac"]
            C["lu-refactor-requests"] = C.get("lu-refactor-requests", 0) + lu["refreq"]
            C["lu-singular-factor"] = C.get("lu-singular-factor", 0) + lu["sing"]
            C["lu-update-errors"] = C.get("lu-update-errors", 0) + lu["err"]
            mx["max_updates_between_factorizations"] = max(mx.get("max_updates_between_factorizations", 0), lu["maxrun"])
        if op == "get_basis_array" and ev.get("rc") == 0:
            lastbas = ev
        if op in ("tableau", "tableau_direct") and ev.get("rc") == 0 and lastbas is not None and "order" in ev:
            # the stored basis (QSget_basis_array) and the working basis (QSget_basis_order) name the same basic set, also after a
            # pivot-in request that could be carried out in part only
            want = set(j for j, ch in enumerate(lastbas["cstat"]) if ch == "1") | set(m.ncols + i for i, ch in enumerate(lastbas["rstat"]) if ch == "1")
            got = set(ev["order"])
            if want != got and len(got) == m.nrows:
                V.append(("C13|pivotin|stored-basis-differs-from-working-basis", "QSget_basis_array says basic set %s, QSget_basis_order %s" % (sorted(want), sorted(got))))
                break
            lastbas = None
        if op in ("tableau", "tableau_direct"):
            bad = check_tableau(m, ev)
            if bad is None:
                C[op + ":unavailable"] = C.get(op + ":unavailable", 0) + 1
                continue
            n += 1
            C[op + ":checked"] = C.get(op + ":checked", 0) + 1
            C["rows-checked"] = C.get("rows-checked", 0) + len(ev["rows"])
            if bad:
                V.append(("C13|%s|%s" % (op, bad[0].split(" ")[0] + "-" + case.meta["mode"]), "%s after %s: %s" % (op, case.meta["mode"], "; ".join(bad[:3])[:900])))
                break
    return V, C, n, mx


# ---------------------------------------------------------------- component level (ludrive)
def gen_lu_script(tier, seed, k):
    """script for ludrive: matrices + replacement sequences; the oracle keeps the current B in Python"""
    rnd = run.rng("C13", tier, seed, "lu", k)
    L = []
    kind = rnd.choice(["rand", "tri", "singleton", "dense", "nearsing", "rand"])
    # from dimension 21 on the solves switch between sparse and dense kernels by the fill of their work vector (5% rule)
    n = rnd.choice([2, 3, 4, 5, 6, 8, 12, 20, 21, 24, 35, 60]) if tier == "thorough" else rnd.choice([2, 3, 4, 5, 6, 8, 12, 20, 21, 24, 30])
    def val():
        t = rnd.random()
        if t < 0.7:
            return F(rnd.randint(-4, 4))
        if t < 0.95:
            return F(rnd.randint(-9, 9), rnd.choice([2, 3, 5]))
        return F(rnd.randint(-10 ** 9, 10 ** 9), rnd.randint(1, 10 ** 6))
    # non-singular by construction: triangular with non-zero diagonal, then permuted and mixed by column operations
    dens = {"rand": 0.4, "tri": 0.5, "singleton": 0.12, "dense": 1.0, "nearsing": 0.6}[kind]
    A = [[Z] * n for _ in range(n)]
    for i in range(n):
        A[i][i] = val() or F(1)
        for j in range(i + 1, n):
            if rnd.random() < dens:
                A[i][j] = val()
    if kind != "tri":
        pr = list(range(n)); rnd.shuffle(pr)
        pc = list(range(n)); rnd.shuffle(pc)
        A = [[A[pr[i]][pc[j]] for j in range(n)] for i in range(n)]
        for _ in range(0 if kind == "singleton" else rnd.randint(0, n)):
            a, b = rnd.randrange(n), rnd.randrange(n)
            if a != b:
                w = val() or F(1)
                for i in range(n):
                    A[i][a] += w * A[i][b]
    if kind == "nearsing" and n >= 2:
        e = F(1, 2 ** rnd.choice([40, 60, 80]))
        for i in range(n):
            A[i][n - 1] = A[i][0] * 2 + (e if i == n - 1 else 0) * (A[n - 1][n - 1] or 1)
        if all(A[i][n - 1] == 2 * A[i][0] for i in range(n)):
            A[n - 1][n - 1] += e
    if rnd.random() < 0.1 and n >= 2:
        for i in range(n):
            A[i][n - 1] = A[i][0] * 3          # exactly singular
    params = []
    if rnd.random() < 0.5:
        params.append("iparam 3 %d" % rnd.choice([1, 2, 5, 20]))       # QS_FACTOR_ETAMAX
    if rnd.random() < 0.3:
        params.append("dparam 11 %s" % rnd.choice(["1.0", "1.2"]))     # ER_SPACE_MUL
    if rnd.random() < 0.3:
        params.append("dparam 7 1.0")                                   # UR_SPACE_MUL
        params.append("dparam 8 1.0")
    if rnd.random() < 0.3:
        params.append("dparam 16 %s" % rnd.choice(["0.0", "0.1"]))     # DENSE_FRACT
        params.append("iparam 17 %d" % rnd.choice([1, 2]))             # DENSE_MIN
    L.append("matrix %d" % n)
    L += params
    for j in range(n):
        ents = [(i, A[i][j]) for i in range(n) if A[i][j] != 0]
        L.append("col %d %d %s" % (j, len(ents), " ".join("%d %s" % (i, fmt(v)) for i, v in ents)))
    L.append("factor")
    cur = [[A[i][j] for i in range(n)] for j in range(n)]      # current columns (valid while the library agrees with exact maths)
    def sparse_sol():
        ks = rnd.sample(range(n), rnd.randint(1, min(n, 2)))
        return {kk: val() or F(1) for kk in ks}
    for _ in range(rnd.randint(1, (45 if n <= 20 else 14) if tier == "quick" else 150)):
        t = rnd.random()
        if t < 0.3:
            if rnd.random() < 0.4:
                # dense right-hand side whose solution is sparse: a = sum_j x_j B_j
                x = sparse_sol()
                rhs = [(i, sum((xj * cur[j][i] for j, xj in x.items()), Z)) for i in range(n)]
                rhs = [(i, v) for i, v in rhs if v != 0]
            else:
                rhs = [(i, val()) for i in range(n) if rnd.random() < 0.5]
            L.append("ftran %d %s" % (len(rhs), " ".join("%d %s" % (i, fmt(v)) for i, v in rhs)))
        elif t < 0.5:
            if rnd.random() < 0.4:
                # a^T = y^T B with y sparse: the intermediate vectors of btran are sparse although a is dense
                y = sparse_sol()
                rhs = [(j, sum((yi * cur[j][i] for i, yi in y.items()), Z)) for j in range(n)]
                rhs = [(j, v) for j, v in rhs if v != 0]
            else:
                rhs = [(i, val()) for i in range(n) if rnd.random() < 0.5]
            L.append("btran %d %s" % (len(rhs), " ".join("%d %s" % (i, fmt(v)) for i, v in rhs)))
        else:
            j = rnd.randrange(n)
            u = rnd.random()
            if u < 0.06 and n >= 2:
                L.append("replace_copy %d %d" % (j, (j + 1) % n))             # makes the matrix singular: must be refused
            elif u < 0.16:
                col = [(i, val()) for i in range(n) if rnd.random() < 0.5]    # arbitrary column (may or may not be singular)
                col = [(i, v) for i, v in col if v != 0]
                L.append("replace %d %d %s" % (j, len(col), " ".join("%d %s" % (i, fmt(v)) for i, v in col)))
                L.append("factor_sync")
                break
            else:
                # combination of current columns with a non-zero weight on the replaced one: stays non-singular
                w = {j: val() or F(1)}
                for _k in range(rnd.randint(0, 2)):
                    w[rnd.randrange(n)] = w.get(rnd.randrange(n), Z) + val()
                w[j] = w[j] if w[j] != 0 else F(1)
                newc = [sum((wk * cur[k][i] for k, wk in w.items()), Z) for i in range(n)]
                if kind in ("rand", "singleton") and rnd.random() < 0.5:
                    pass
                col = [(i, v) for i, v in enumerate(newc) if v != 0]
                cur[j] = newc
                L.append("replace %d %d %s" % (j, len(col), " ".join("%d %s" % (i, fmt(v)) for i, v in col)))
    L.append("end")
    return L, n


def rank_and_solve(Bm, rhs, transpose=False):
    from vlib.basis import solve_square
    n = len(Bm)
    M = [[Bm[j][i] for j in range(n)] for i in range(n)] if transpose else Bm
    return solve_square(M, [rhs])


def judge_lu(lines, out):
    """replays the script on a Python matrix and compares with ludrive's output records"""
    V, C = [], {}
    n = None
    cols = None
    factored = False
    it = iter(out)
    mxrun = 0
    runlen = 0
    def nxt(op):
        try:
            r = next(it)
        except StopIteration:
            raise run.HarnessError("ludrive output ended early (expected %s)" % op)
        if r.get("op") != op:
            raise run.HarnessError("ludrive out of step: expected %s got %s" % (op, r.get("op")))
        return r
    for ln in lines:
        t = ln.split()
        if t[0] == "matrix":
            n = int(t[1])
            cols = [dict() for _ in range(n)]
            factored = False
            nxt("matrix")
        elif t[0] in ("iparam", "dparam"):
            nxt(t[0])
        elif t[0] == "col":
            j, c = int(t[1]), int(t[2])
            cols[j] = {int(t[3 + 2 * q]): F(t[4 + 2 * q]) for q in range(c)}
            nxt("col")
        elif t[0] == "factor":
            r = nxt("factor")
            Bm = [[cols[j].get(i, Z) for j in range(n)] for i in range(n)]
            from vlib.basis import solve_square
            nons = solve_square(Bm, [[Z] * n]) is not None
            C["factor:" + ("nonsingular" if nons else "singular")] = C.get("factor:" + ("nonsingular" if nons else "singular"), 0) + 1
            if r["rc"] != 0:
                V.append(("C13|lu|factor-error", "ILLfactor returned %d" % r["rc"]))
                return V, C, mxrun
            if nons and r["nsing"] != 0:
                V.append(("C13|lu|nonsingular-reported-singular", "a non-singular %dx%d matrix was reported singular (nsing %d)" % (n, n, r["nsing"])))
                return V, C, mxrun
            if not nons and r["nsing"] == 0:
                V.append(("C13|lu|singular-not-reported", "a singular %dx%d matrix was factored without complaint" % (n, n)))
                return V, C, mxrun
            factored = nons
            runlen = 0
            if not nons:
                return V, C, mxrun       # rest of the script is skipped by ludrive too
        elif t[0] in ("ftran", "btran"):
            r = nxt(t[0])
            if not factored:
                continue
            c = int(t[1])
            rhs = [Z] * n
            for q in range(c):
                rhs[int(t[2 + 2 * q])] = F(t[3 + 2 * q])
            x = [Z] * n
            for i, v in zip(r["ind"], r["val"]):
                x[i] += F(v)
            Bm = [[cols[j].get(i, Z) for j in range(n)] for i in range(n)]
            if t[0] == "ftran":
                chk = [sum((Bm[i][j] * x[j] for j in range(n)), Z) for i in range(n)]
            else:
                chk = [sum((x[i] * Bm[i][j] for i in range(n)), Z) for j in range(n)]
            C[t[0] + ":checked"] = C.get(t[0] + ":checked", 0) + 1
            C["solves-after-%s-updates" % ("0" if runlen == 0 else "1-9" if runlen < 10 else "10+")] = C.get("solves-after-%s-updates" % ("0" if runlen == 0 else "1-9" if runlen < 10 else "10+"), 0) + 1
            if chk != rhs:
                V.append(("C13|lu|%s-wrong" % t[0], "%s result does not satisfy the system after %d updates since the last factorization (dim %d)" % (t[0], runlen, n)))
                return V, C, mxrun
        elif t[0] in ("replace", "replace_copy"):
            r = nxt("replace")
            if not factored:
                continue
            j = int(t[1])
            if t[0] == "replace_copy":
                newcol = dict(cols[int(t[2])])
            else:
                c = int(t[2])
                newcol = {int(t[3 + 2 * q]): F(t[4 + 2 * q]) for q in range(c)}
            trial = list(cols)
            trial[j] = newcol
            Bm = [[trial[jj].get(i, Z) for jj in range(n)] for i in range(n)]
            from vlib.basis import solve_square
            nons = solve_square(Bm, [[Z] * n]) is not None
            st = r["status"]          # "updated", "refactored", "singular-kept-old"
            C["replace:" + st] = C.get("replace:" + st, 0) + 1
            if r.get("cause"):
                C["refactor-cause:" + r["cause"]] = C.get("refactor-cause:" + r["cause"], 0) + 1
            if st in ("updated", "refactored"):
                if not nons:
                    V.append(("C13|lu|singular-update-accepted", "replacing column %d made the matrix singular but the update was accepted (%s)" % (j, st)))
                    return V, C, mxrun
                cols = trial
                runlen = runlen + 1 if st == "updated" else 0
                mxrun = max(mxrun, runlen)
            elif st == "singular-kept-old":
                if nons:
                    V.append(("C13|lu|nonsingular-update-rejected", "replacing column %d keeps the matrix non-singular but it was reported singular" % j))
                    return V, C, mxrun
                runlen = 0
            else:
                raise run.HarnessError("unknown replace status %r" % st)
        elif t[0] in ("end", "factor_sync"):
            break
    return V, C, mxrun


def chunk(payload):
    tier, seed, kind, start, count, bindir = (payload[k] for k in ("tier", "seed", "kind", "start", "count", "bindir"))
    wd = run.workdir("C13-%s-%d" % (kind, start))
    part = dict(evaluations=0, distinct=[], counters={}, violations=[], inconclusive=[], samples=[], max={})
    cnt = part["counters"]
    try:
        for k in range(start, start + count):
            if kind == "api":
                c, m = gen_api_case(tier, seed, k)
                res = run.run_cases(os.path.join(bindir, "qsdrive"), [c], os.path.join(wd, "c%d" % k), batch=1, timeout=900)
                V, C, n, mx = judge_api(c, res[c.id], m)
                part["evaluations"] += 1
                if n:
                    part["distinct"].append(run.h(c.script))
                for a, b in mx.items():
                    part["max"][a] = max(part["max"].get(a, 0), b)
                rep_case = c
            else:
                lines, n = gen_lu_script(tier, seed, k)
                sub = os.path.join(wd, "l%d" % k)
                os.makedirs(sub, exist_ok=True)
                sp = os.path.join(sub, "lu.txt")
                open(sp, "w").write("\n".join(lines) + "\n")
                env = run.san_env(sub)
                try:
                    p = subprocess.run([os.path.join(bindir, "ludrive"), sp], cwd=sub, env=env, stdout=subprocess.PIPE, stderr=subprocess.PIPE, timeout=600)
                    rc, outb, err = p.returncode, p.stdout, p.stderr
                except subprocess.TimeoutExpired:
                    rc, outb, err = None, b"", b""
                san = run._read_san(sub)
                rep_case = run.Case("C13-lu-%d" % k, lines, dict(kind="lu", k=k))
                part["evaluations"] += 1
                if rc is None:
                    V, C, mxr = [("C13|lu|hang", "ludrive did not finish")], {}, 0
                elif rc != 0 or san:
                    cr = run.triage(san or err.decode("latin-1")[-3000:], rc)
                    V, C, mxr = [("C13|lu|%s|%s" % (cr["kind"], ">".join(cr["frames"])), "ludrive died: %s\n%s" % (cr["kind"], cr["text"][:1200]))], {"crash": 1}, 0
                else:
                    out = [json.loads(x) for x in outb.decode().split("\n") if x.strip()]
                    V, C, mxr = judge_lu(lines, out)
                    part["distinct"].append(run.h(lines))
                part["max"]["lu_max_updates_between_factorizations"] = max(part["max"].get("lu_max_updates_between_factorizations", 0), mxr)
                part["max"]["lu_max_dim"] = max(part["max"].get("lu_max_dim", 0), n)
            cnt["kind:" + kind] = cnt.get("kind:" + kind, 0) + 1
            for a, b in C.items():
                cnt[a] = cnt.get(a, 0) + b
            if "watchdog_inconclusive" in C:
                part["inconclusive"].append("watchdog: %s" % rep_case.id)
            for key, what in V:
                rep_case.meta.update(k=k, tier=tier, seed=seed)
                part["violations"].append(dict(key=key, what=what, replay=run.save_replay("C13", rep_case, what)))
            if not part["samples"]:
                part["samples"].append(dict(case=rep_case.id, script=rep_case.script[:12]))
    finally:
        run.cleanup(wd)
    return part


RULE = ("api: LPs (small random/degenerate, planted 10-25 and 30-60 rows) solved by mpq_QSopt_primal/dual under every pricing rule and stopped at iteration limits "
        "1..89 (continued in slices), at optimality, and after QSopt_pivotin_row/col; every row of B^-1 and every tableau row (public API and direct ILLlib_tableau when no "
        "cache exists; also in states without a loaded simplex basis: must refuse or answer exactly) is multiplied back exactly against [A | logicals] in the reported basis order; lu: ludrive drives ILLfactor/ftran/btran/ftran_update+update on "
        "random structured matrices (triangular, singleton-rich, dense, near-singular, exactly singular) with 1-120 column replacements, eta limits and space "
        "multipliers forcing refactorization, singular replacements; Python keeps the current matrix and checks every solve and every singularity verdict exactly; "
        "non-trivial = case with >=1 checked tableau resp. script run; distinct = hash(script)")


def run_check(prop, tier, seed):
    b = run.builds(["asan"])
    rep = run.Report(prop, tier, seed, RULE)
    q = tier == "quick"
    payloads = []
    for kind, n, step in (("api", 200 if q else 3000, 4), ("lu", 2500 if q else 60000, 50)):
        for s in range(0, n, step):
            payloads.append(dict(tier=tier, seed=seed, kind=kind, start=s, count=min(step, n - s), bindir=b["asan"]))
    for part in run.pool_map("checks.c13", "chunk", payloads):
        rep.merge(part)
    return rep.finish(floor=300)


def replay(prop, path):
    b = run.builds(["asan"])
    case, d = run.load_replay(path)
    meta = d.get("meta", {})
    k, tier, seed = meta.get("k"), meta.get("tier", "quick"), meta.get("seed", 1)
    part = chunk(dict(tier=tier, seed=seed, kind=meta.get("kind", "api"), start=k, count=1, bindir=b["asan"]))
    for v in part["violations"]:
        print("VIOLATION property=C13 replay=%s\n  key: %s\n  what: %s" % (path, v["key"], v["what"][:1500]))
    if not part["violations"]:
        print("replay: no violation reproduced")
    return 1 if part["violations"] else 0
