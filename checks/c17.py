"""C17: memory safety / no UB / reproducible results.
(1) a stratified corpus of the other checks' scripts is executed on the ASan+UBSan build (GMP on malloc): any report is a violation;
(2) a subset runs under valgrind memcheck (--track-origins) on the plain build;
(3) reproducibility: scripts are executed several times in fresh processes with perturbed allocator contents, ASLR off/on and
    a padded environment; transcripts and written files must be byte-identical."""
import hashlib, json, os, re, subprocess, sys
sys.path.insert(0, os.path.dirname(os.path.dirname(os.path.abspath(__file__))))
from vlib import run
from checks import c20, c13, c15, c12

STREAMS = ["solve", "hist", "file-valid", "file-mutant", "basis-mutant", "missing", "basis", "copy", "verdict", "probe"]
VOLATILE = {"logs", "logn", "lognull", "fd1", "fd2"}


def hugeterm_case(k):
    """seed-independent: one term of a written line (coefficient text plus name) longer than the writers' 128 KiB line buffer, and
    two controls just below.  Names up to 131071 characters and rationals of any size are accepted by the API."""
    big = "7" * 70000 + "/3" + "1" * 69999
    specs = [("name-lp", "7" + "b" * 131070, "1", ["LP"]), ("name-mps", "a" + "b" * 131059, "1", ["MPS"]), ("coef-lp", "x", big, ["LP"]),
             ("coef-mps", "x", big, ["MPS"]), ("control-name", "a" + "b" * 99999, "1", ["LP", "MPS"]),
             ("control-coef", "x", "7" * 20000 + "/3" + "1" * 19999, ["LP", "MPS"])]
    tag, nm, cf, fmts = specs[k % len(specs)]
    L = ["create p0 prob min", "new_col p0 1 0 5 %s" % nm, "new_col p0 2 0 5 y", "new_row p0 1 G r1", "change_coef p0 0 0 %s" % cf, "change_coef p0 0 1 1"]
    for f in fmts:
        L += ["write_prob p0 @W@/o.%s %s" % (f.lower(), f), "read_prob p1 @W@/o.%s %s" % (f.lower(), f)]
    return run.Case("C17-hugeterm-%s" % tag, L, dict(stream="hugeterm", tag=tag))


def corpus_case(tier, seed, stream, k):
    if stream == "hugeterm":
        return hugeterm_case(k)
    if stream == "lu-api":
        c, m = c13.gen_api_case(tier, seed + 2000, k)
        return c
    if stream == "enum":
        c, m, b = c12.gen_enum_case("quick", seed + 2000, k)
        return c
    c = c20.workload("C17", tier, seed, stream, k)
    c.script = [x for x in c.script if not x.startswith("capture ")]
    return c


def transcript(events):
    """canonical text of what a run computed (statuses, every rational, bases); messages excluded (they contain timings)"""
    out = []
    for e in events:
        out.append(json.dumps({k: v for k, v in e.items() if k not in VOLATILE}, sort_keys=True))
    return "\n".join(out)


def file_hashes(wd):
    h = {}
    for root, _, files in os.walk(wd):
        for n in files:
            if n in ("script.txt", "ev.jsonl") or n.startswith(("san.", "cap1", "cap2", "vg.")):
                continue
            p = os.path.join(root, n)
            data = open(p, "rb").read()
            if n.endswith(".gz"):
                # gzip headers carry a timestamp: compare the payload
                import gzip
                try:
                    data = gzip.decompress(data)
                except Exception:
                    pass
            h[os.path.relpath(p, wd).split(os.sep, 1)[-1]] = hashlib.sha256(data).hexdigest()
    return h


def chunk_asan(payload):
    tier, seed, stream, start, count, bindir = (payload[k] for k in ("tier", "seed", "stream", "start", "count", "bindir"))
    wd = run.workdir("C17a-%s-%d" % (stream, start))
    part = dict(evaluations=0, distinct=[], counters={}, violations=[], inconclusive=[], samples=[])
    cnt = part["counters"]
    try:
        cases = [corpus_case(tier, seed, stream, k) for k in range(start, start + count)]
        fill = payload.get("fill")
        # second passes of the history corpus with another fill pattern for fresh heap blocks: a field that is read before it is
        # written then holds a large positive / small / zero value instead of ASan's default 0xbe.. (negative as an int)
        xenv = {"ASAN_EXTRA": "max_malloc_fill_size=1048576:malloc_fill_byte=%d" % fill} if fill is not None else None
        res = run.run_cases(os.path.join(bindir["asan"], "qsdrive"), cases, wd, batch=1 if stream in ("probe", "hugeterm") else 10, timeout=600, env_extra=xenv)
        for c in cases:
            r = res[c.id]
            part["evaluations"] += 1
            if fill is not None:
                cnt["asan-fill-%02x" % fill] = cnt.get("asan-fill-%02x" % fill, 0) + 1
            cnt["asan:" + stream] = cnt.get("asan:" + stream, 0) + 1
            cnt["asan-calls"] = cnt.get("asan-calls", 0) + len(r.events)
            part["distinct"].append(run.h(c.script, sorted(c.files.items())))
            if r.crash:
                what = "sanitizer report / fatal signal in %s: %s\n%s" % (r.crash.get("op"), r.crash["kind"], r.crash["text"][:1500])
                part["violations"].append(dict(key=run.crash_key("C17", r.crash), what=what, replay=run.save_replay("C17", c, what)))
            elif r.timeout:
                part["inconclusive"].append("watchdog: %s" % c.id)
            if not part["samples"]:
                part["samples"].append(dict(case=c.id, mode="asan", script=c.script[:8]))
    finally:
        run.cleanup(wd)
    return part


_VG = re.compile(r"==\d+== (Invalid (?:read|write) of size \d+|Conditional jump or move depends on uninitialised value\(s\)|Use of uninitialised value of size \d+|Syscall param \S+ (?:points to|contains) uninitialised byte\(s\)|Invalid free\(\)[^\n]*|Mismatched free\(\)[^\n]*|Source and destination overlap[^\n]*)\n((?:==\d+==    (?:at|by) [^\n]*\n)+)")


def chunk_valgrind(payload):
    tier, seed, stream, start, count, bindir = (payload[k] for k in ("tier", "seed", "stream", "start", "count", "bindir"))
    wd = run.workdir("C17v-%s-%d" % (stream, start))
    part = dict(evaluations=0, distinct=[], counters={}, violations=[], inconclusive=[], samples=[])
    cnt = part["counters"]
    try:
        for k in range(start, start + count):
            c = corpus_case(tier, seed, stream, k)
            sub = os.path.join(wd, "v%d" % k)
            vglog = os.path.join(sub, "vg.log")
            os.makedirs(sub, exist_ok=True)
            wrapper = ["valgrind", "-q", "--error-exitcode=77", "--track-origins=yes", "--log-file=" + vglog, "--num-callers=12"]
            try:
                r = run.run_driver(os.path.join(bindir["plain"], "qsdrive"), [c], sub, 1500, wrapper=wrapper)
            except run.HarnessError as e:
                part["inconclusive"].append("valgrind run failed to start: %s" % str(e)[:200])
                continue
            part["evaluations"] += 1
            cnt["valgrind:" + stream] = cnt.get("valgrind:" + stream, 0) + 1
            part["distinct"].append(run.h("vg", c.script, sorted(c.files.items())))
            txt = ""
            if os.path.exists(vglog):
                txt = open(vglog, errors="replace").read()
            seen = set()
            for kind, stack in _VG.findall(txt):
                fr = []
                for fn in re.findall(r"(?:at|by) 0x[0-9A-F]+: (\S+)", stack):
                    if fn.startswith(("mpq_", "dbl_", "mpf_", "ILL", "QS", "EG", "read_", "add_", "mps_", "ill", "opt_", "grab_")):
                        if not fr or fr[-1] != fn:
                            fr.append(fn)
                kindn = re.sub(r"\d+", "N", kind)
                key = "C17|memcheck:%s|%s" % (kindn, ">".join(fr[:3]))
                if key in seen:
                    continue
                seen.add(key)
                what = "valgrind memcheck: %s\n%s" % (kind, stack[:1200])
                part["violations"].append(dict(key=key, what=what, replay=run.save_replay("C17", c, what)))
            rr = r.get(c.id)
            if rr is not None and rr.timeout:
                part["inconclusive"].append("valgrind watchdog: %s" % c.id)
            if not part["samples"]:
                part["samples"].append(dict(case=c.id, mode="valgrind", script=c.script[:8]))
    finally:
        run.cleanup(wd)
    return part


VARIANTS = [("baseline", "plain", {}, None),
            ("perturb55", "plain", {"MALLOC_PERTURB_": "85"}, None),
            ("perturbAA", "plain", {"MALLOC_PERTURB_": "170"}, None),
            ("noaslr", "plain", {}, ["setarch", os.uname().machine, "-R"]),
            ("padenv", "plain", {"VERIF_PAD": "x" * 7001, "VERIF_PAD2": "y" * 333}, None),
            ("asan-fill5a", "asan", {"ASAN_EXTRA": "max_malloc_fill_size=65536:malloc_fill_byte=90"}, None),
            ("asan-filla5", "asan", {"ASAN_EXTRA": "max_malloc_fill_size=65536:malloc_fill_byte=165"}, None)]


def chunk_repro(payload):
    tier, seed, stream, start, count, bindir = (payload[k] for k in ("tier", "seed", "stream", "start", "count", "bindir"))
    wd = run.workdir("C17r-%s-%d" % (stream, start))
    part = dict(evaluations=0, distinct=[], counters={}, violations=[], inconclusive=[], samples=[])
    cnt = part["counters"]
    try:
        for k in range(start, start + count):
            c = corpus_case(tier, seed, stream, k)
            ref = {}
            bad = False
            for name, flav, env, wrapper in VARIANTS:
                sub = os.path.join(wd, "r%d" % k, name)
                env2 = dict(env)
                if "ASAN_EXTRA" in env2:
                    base = run.san_env(sub)["ASAN_OPTIONS"]
                    env2 = {"ASAN_OPTIONS": base + ":" + env2["ASAN_EXTRA"]}
                try:
                    r = run.run_driver(os.path.join(bindir[flav], "qsdrive"), [c], sub, 600, env_extra=env2, wrapper=wrapper)
                except run.HarnessError as e:
                    part["inconclusive"].append("repro run failed: %s" % str(e)[:200])
                    bad = True
                    break
                rr = r.get(c.id)
                if rr is None or rr.timeout:
                    part["inconclusive"].append("repro watchdog: %s/%s" % (c.id, name))
                    bad = True
                    break
                if rr.crash:
                    # crashes are (1)'s business; without a transcript there is nothing to compare
                    cnt["repro:crashed-case-skipped"] = cnt.get("repro:crashed-case-skipped", 0) + 1
                    bad = True
                    break
                # paths inside file names differ per variant directory: normalise the work dir
                t = transcript(rr.events).replace(sub, "@W@")
                fh = file_hashes(sub)
                cnt["repro-runs"] = cnt.get("repro-runs", 0) + 1
                # the slab allocator build (plain) and the malloc build (asan) must agree as well
                if not ref:
                    ref = dict(name=name, t=t, fh=fh)
                else:
                    if t != ref["t"]:
                        a, b = ref["t"].split("\n"), t.split("\n")
                        i = next((i for i, (x, y) in enumerate(zip(a, b)) if x != y), min(len(a), len(b)))
                        what = "transcript of run `%s` differs from `%s` at record %d:\n  %s\n  %s" % (name, ref["name"], i, (a[i] if i < len(a) else "<end>")[:500], (b[i] if i < len(b) else "<end>")[:500])
                        op = ""
                        try:
                            op = json.loads(b[i]).get("op", "")
                        except Exception:
                            pass
                        part["violations"].append(dict(key="C17|nondeterministic|%s|%s" % (op, name.split("-")[0]), what=what, replay=run.save_replay("C17", c, what)))
                        break
                    if fh != ref["fh"]:
                        diff = sorted(n for n in set(fh) | set(ref["fh"]) if fh.get(n) != ref["fh"].get(n))
                        what = "files written by run `%s` differ from `%s`: %s" % (name, ref["name"], diff[:5])
                        part["violations"].append(dict(key="C17|nondeterministic-file|%s" % name.split("-")[0], what=what, replay=run.save_replay("C17", c, what)))
                        break
            if not bad:
                part["evaluations"] += 1
                cnt["repro:" + stream] = cnt.get("repro:" + stream, 0) + 1
                part["distinct"].append(run.h("repro", c.script, sorted(c.files.items())))
            if not part["samples"]:
                part["samples"].append(dict(case=c.id, mode="repro", variants=[v[0] for v in VARIANTS], script=c.script[:8]))
    finally:
        run.cleanup(wd)
    return part


RULE = ("corpus = scripts of the other checks' generators (solves under random configurations, edit/solve histories, valid and mutated LP/MPS/basis files, missing files, "
        "basis round trips, copies, verdict calls, invalid-argument probes, LU/tableau runs, basis enumeration); (1) all on the ASan+UBSan build with GMP on malloc; "
        "(2) a subset under valgrind memcheck --track-origins on the plain (slab allocator) build; (3) a subset run 7x in fresh processes (baseline, MALLOC_PERTURB_ "
        "0x55/0xAA, ASLR off, padded environment, ASan malloc fill 0x5a/0xa5 incl. the slab-vs-malloc build difference) with byte comparison of the transcripts "
        "(every status, rational, basis) and SHA-256 of written files; non-trivial = case executed; distinct = hash(mode, script, files)")


def run_check(prop, tier, seed):
    b = run.builds(["asan", "plain"])
    rep = run.Report(prop, tier, seed, RULE)
    q = tier == "quick"
    payloads = []
    plan_a = [("solve", 200), ("hist", 80), ("file-valid", 200), ("file-mutant", 600), ("basis-mutant", 300), ("missing", 100), ("basis", 150), ("copy", 40), ("verdict", 100),
              ("probe", 300), ("lu-api", 60), ("enum", 12), ("oddparam", 60), ("hugeterm", 6)]
    scale = 1 if q else 15
    for stream, n in plan_a:
        n *= scale if stream != "hugeterm" else 1
        step = 10 if stream in ("hist", "copy", "solve", "verdict", "lu-api", "enum") else 30
        for s in range(0, n, step):
            payloads.append(("chunk_asan", dict(tier=tier, seed=seed, stream=stream, start=s, count=min(step, n - s), bindir=b)))
    for fill in (0x5a, 0x01):
        for strm, n0 in (("hist", 80), ("solve", 200)):
            n = n0 * scale
            for s_ in range(0, n, 10):
                payloads.append(("chunk_asan", dict(tier=tier, seed=seed, stream=strm, start=s_, count=min(10, n - s_), bindir=b, fill=fill)))
    plan_v = [("solve", 6), ("hist", 12), ("file-valid", 4), ("file-mutant", 8), ("basis", 3), ("verdict", 3), ("copy", 2), ("lu-api", 2)]
    for stream, n in plan_v:
        n *= (1 if q else 6)
        for s in range(n):
            payloads.append(("chunk_valgrind", dict(tier=tier, seed=seed, stream=stream, start=5000 + s, count=1, bindir=b)))
    plan_r = [("solve", 20), ("hist", 8), ("file-valid", 10), ("file-mutant", 10), ("basis", 8), ("verdict", 6), ("copy", 4), ("lu-api", 4)]
    for stream, n in plan_r:
        n *= (1 if q else 7)
        for s in range(0, n, 2):
            payloads.append(("chunk_repro", dict(tier=tier, seed=seed, stream=stream, start=7000 + s, count=min(2, n - s), bindir=b)))
    # valgrind jobs first (longest)
    payloads.sort(key=lambda p: 0 if p[0] == "chunk_valgrind" else 1)
    outs = run.pool_map("checks.c17", "dispatch", payloads)
    for part in outs:
        rep.merge(part)
    return rep.finish(floor=500)


def dispatch(p):
    return globals()[p[0]](p[1])


def replay(prop, path):
    b = run.builds(["asan", "plain"])
    case, d = run.load_replay(path)
    wd = run.workdir("replayC17")
    V = []
    try:
        res = run.run_cases(os.path.join(b["asan"], "qsdrive"), [case], wd, batch=1)
        r = res[case.id]
        if r.crash:
            V.append((run.crash_key("C17", r.crash), r.crash["text"][:1500]))
    finally:
        run.cleanup(wd)
    for key, what in V:
        print("VIOLATION property=C17 replay=%s\n  key: %s\n  what: %s" % (path, key, what))
    if not V:
        print("replay: no sanitizer report reproduced on the ASan build (memcheck / reproducibility findings: re-run the check)")
    return 1 if V else 0
