"""C04: the answer is a function of the LP only.  Per LP a group of drives (fresh object per configuration, plus
repeated solves of one object and warm starts); definitive statuses and optimal values must all agree."""
import os, sys, itertools
sys.path.insert(0, os.path.dirname(os.path.dirname(os.path.abspath(__file__))))
from vlib import run, gen_lp, model, script as vscript
from vlib.rat import parse
from checks import solvefam as sf

DEFINITIVE = {1, 2, 3}
FAMS = ["small-rand", "small-int", "degenerate", "illcond", "thin", "planted-opt", "planted-inf", "tiny", "planted-unb", "knife", "boxed"]


def all_solves(script, events):
    out = []
    try:
        for ln, cmd, slot, op, ev, models in vscript.walk(script, events):
            if cmd in ("solve_exact", "opt_primal", "opt_dual"):
                out.append(dict(cmd=cmd, slot=slot, ev=ev, sol=None, arg=op))
            elif cmd == "dumpsol" and out and out[-1]["slot"] == slot and out[-1]["sol"] is None:
                out[-1]["sol"] = ev
    except ValueError as e:
        raise run.HarnessError(str(e))
    return out


def repeat_script(rnd, m, cfg):
    """one object driven repeatedly: exact, exact again with returned basis, rational primal, rational dual"""
    L = model.script_any(m, "p0", rnd) + sf.param_lines(dict(cfg, entry="opt_primal"), "p0")
    seq = [rnd.choice(["solve_exact p0 dual b0 xy", "solve_exact p0 primal b0 xy", "opt_primal p0", "opt_dual p0"]) for _ in range(rnd.randint(2, 4))]
    for s in seq:
        L.append(s)
        L.append("dumpsol p0")
    return L


def gen_group(tier, seed, k, nconf):
    rnd = run.rng("C04", tier, seed, "grp", k)
    fam = FAMS[k % len(FAMS)]
    if tier == "thorough" and k % 50 == 49:
        fam = "big"           # every driver on an LP that needs several refactorizations; minutes per group
    m = gen_lp.family(rnd, fam)
    cases = []
    if tier == "thorough" and k % 10 == 0:
        # full product entry x pp x dp x scaling at one precision
        confs = []
        for e, pp, dp, sc in itertools.product(["exact-primal", "exact-dual", "opt_primal", "opt_dual"], sf.PP, sf.DP, [0, 1]):
            confs.append(dict(entry=e, pp=pp, dp=dp, scaling=sc, display=0, prec=rnd.choice(sf.PRECS), maxit=None, basis="none"))
    else:
        confs = [sf.rnd_config(rnd, limits=False) for _ in range(nconf)]
        # make sure every entry point and both scalings appear
        for i, e in enumerate(["exact-primal", "exact-dual", "opt_primal", "opt_dual"]):
            if i < len(confs):
                confs[i]["entry"] = e
    for t, c in enumerate(confs):
        lines, _ = sf.case_script(rnd, m, c)
        cases.append(run.Case("C04-%d-%d" % (k, t), lines, dict(cfg=c, k=k)))
    for t in range(2):
        c = sf.rnd_config(rnd, limits=False, bases=False)
        cases.append(run.Case("C04-%d-r%d" % (k, t), repeat_script(rnd, m, c), dict(cfg=dict(c, entry="repeat"), k=k)))
    return m, fam, cases


def judge_group(m, cases, res):
    """-> violations [(key, what, case)], counters, nontrivial"""
    V = []
    C = {}
    obs = []   # (status, value, label, case)
    for c in cases:
        r = res[c.id]
        if r.crash:
            V.append((run.crash_key("C04", r.crash), "process died in %s: %s\n%s" % (r.crash.get("op"), r.crash["kind"], r.crash["text"][:1200]), c))
            continue
        if r.timeout:
            C["watchdog_inconclusive"] = C.get("watchdog_inconclusive", 0) + 1
            continue
        solves = all_solves(c.script, r.events)
        judged = solves if c.meta["cfg"]["entry"] == "repeat" else solves[-1:]
        for t, s in enumerate(judged):
            ev = s["ev"]
            st = ev.get("status")
            lab = "%s#%d" % (c.meta["cfg"]["entry"] if c.meta["cfg"]["entry"] != "repeat" else "repeat:" + s["cmd"], t)
            C["solves"] = C.get("solves", 0) + 1
            C["status:" + sf.ST.get(st, str(st))] = C.get("status:" + sf.ST.get(st, str(st)), 0) + 1
            if ev.get("rc") != 0 or st not in DEFINITIVE:
                C["non-definitive"] = C.get("non-definitive", 0) + 1
                continue
            val = None
            if st == 1:
                sol = s["sol"]
                if sol is None or sol.get("objval_rc") != 0:
                    V.append(("C04|%s|objval-unavailable" % lab.split("#")[0], "OPTIMAL but no objective value", c))
                    continue
                val = parse(sol["objval"])
            obs.append((st, val, lab, c))
    if obs:
        st0, v0, l0, c0 = obs[0]
        for st, v, l, c in obs[1:]:
            if st != st0:
                V.append(("C04|status|%s-vs-%s" % tuple(sorted([sf.ST[st], sf.ST[st0]])),
                          "status %s from %s but %s from %s (same LP)" % (sf.ST[st], l, sf.ST[st0], l0), c))
            elif st == 1 and v != v0:
                V.append(("C04|value|%s-vs-%s" % tuple(sorted([l.split("#")[0].split(":")[0], l0.split("#")[0].split(":")[0]])),
                          "optimal value %s from %s but %s from %s" % (v, l, v0, l0), c))
    return V, C, len(obs) >= 2


def chunk(payload):
    tier, seed, ks, bindir, nconf = payload["tier"], payload["seed"], payload["ks"], payload["bindir"], payload["nconf"]
    wd = run.workdir("C04-%d" % ks[0])
    part = dict(evaluations=0, distinct=[], counters={}, violations=[], inconclusive=[], samples=[])
    cnt = part["counters"]
    try:
        for k in ks:
            m, fam, cases = gen_group(tier, seed, k, nconf)
            res = run.run_cases(os.path.join(bindir, "qsdrive"), cases, os.path.join(wd, "g%d" % k), batch=40, timeout=300)
            V, C, nontriv = judge_group(m, cases, res)
            part["evaluations"] += len(cases)
            cnt["groups"] = cnt.get("groups", 0) + 1
            cnt["family:" + fam] = cnt.get("family:" + fam, 0) + 1
            for a, b in C.items():
                cnt[a] = cnt.get(a, 0) + b
            if nontriv:
                part["distinct"].append(run.h(m.key()))
                cnt["groups_with>=2_definitive"] = cnt.get("groups_with>=2_definitive", 0) + 1
            if C.get("watchdog_inconclusive"):
                part["inconclusive"].append("watchdog in group %d" % k)
            for key, what, c in V:
                part["violations"].append(dict(key=key, what=what, replay=save_group(k, tier, seed, nconf, c, what)))
            if not part["samples"] and nontriv:
                part["samples"].append(dict(group=k, family=fam, configs=[c.meta["cfg"] for c in cases[:4]], first_script=cases[0].script[:30]))
    finally:
        run.cleanup(wd)
    return part


def save_group(k, tier, seed, nconf, c, what):
    c.meta.update(group=k, tier=tier, seed=seed, nconf=nconf)
    return run.save_replay("C04", c, what)


RULE = ("groups = one seeded LP driven by N sampled configurations (entry point x primal/dual pricing x scaling x display x mpf precision x "
        "warm-start mode, each in a fresh object) plus objects solved repeatedly; all definitive (status, exact value) pairs of a group must agree; "
        "non-trivial = group with >=2 definitive results; distinct = hash(LP data)")


def run_check(prop, tier, seed):
    b = run.builds(["asan"])
    rep = run.Report(prop, tier, seed, RULE)
    ngroups, nconf = (80, 10) if tier == "quick" else (600, 48)
    per = 1 if tier == "quick" else 2
    payloads = [dict(tier=tier, seed=seed, ks=list(range(s, min(s + per, ngroups))), bindir=b["asan"], nconf=nconf) for s in range(0, ngroups, per)]
    for part in run.pool_map("checks.c04", "chunk", payloads):
        rep.merge(part)
    return rep.finish(floor=100)


def replay(prop, path):
    """re-runs the whole group the failing case belonged to (the comparison needs its siblings)"""
    b = run.builds(["asan"])
    case, d = run.load_replay(path)
    meta = d.get("meta", {})
    k, tier, seed, nconf = meta.get("group"), meta.get("tier", "quick"), meta.get("seed", 1), meta.get("nconf", 10)
    wd = run.workdir("replayC04")
    try:
        if k is None:
            raise run.HarnessError("replay file has no group id")
        m, fam, cases = gen_group(tier, seed, k, nconf)
        res = run.run_cases(os.path.join(b["asan"], "qsdrive"), cases, wd, batch=40, timeout=300)
        V, C, _ = judge_group(m, cases, res)
    finally:
        run.cleanup(wd)
    for key, what, c in V:
        print("VIOLATION property=C04 replay=%s\n  key: %s\n  what: %s" % (path, key, what[:1500]))
    if not V:
        print("replay: no violation reproduced")
    return 1 if V else 0
