"""C07: invalid arguments are rejected with an error and change nothing.  Enumerated probes, one process per probe:
(function x invalid value x lifecycle state); the full observable state (problem, basis, stored solution, status) is
dumped before and after the probe and must be identical; the probe must return non-zero; no sanitizer report."""
import os, sys, json
sys.path.insert(0, os.path.dirname(os.path.dirname(os.path.abspath(__file__))))
from vlib import run, model
from vlib.model import LP, Col, Row, MIN, MAX
from vlib.rat import INF, NINF
from fractions import Fraction as F

VOLATILE = {"seq", "logs", "logn", "lognull", "hk", "hkn", "lu_dbl", "lu_mpf", "lu_mpq", "fd1", "fd2"}


def base():
    m = LP("c07", MAX)
    x, y, z, w = Col("x", 3, F(2), INF), Col("y", 2, NINF, INF), Col("z", 4, F(1), F(10)), Col("w", -1, F(0), F(5))
    m.cols = [x, y, z, w]
    m.rows = [Row("c1", "L", 12, 0, {x: F(3), y: F(2), z: F(1)}), Row("c2", "E", 10, 0, {x: F(5), y: F(1)}),
              Row("c3", "R", 1, 6, {y: F(1), w: F(2)})]
    return m


STATES = ["empty", "loaded", "solved-exact", "solved-primal", "solved-dual", "edited-after-solve", "grown", "norange-solved"]


def setup(state):
    if state == "empty":
        return ["create p0 e min"], 0, 0
    m = base()
    if state == "norange-solved":
        # no range row anywhere: the problem carries no array of ranges (the MPS writer writes no RANGES section)
        m.rows[2].sense, m.rows[2].range = "G", 0
    L = model.script_build(m, "p0") + ["set_param p0 5 3000"]
    if state == "norange-solved":
        L += ["opt_dual p0"]
    if state == "solved-exact":
        L += ["solve_exact p0 dual b0 xy"]
    elif state == "solved-primal":
        L += ["opt_primal p0"]
    elif state == "solved-dual":
        L += ["opt_dual p0"]
    elif state == "edited-after-solve":
        L += ["opt_dual p0", "change_objcoef p0 0 7", "change_rhscoef p0 0 11"]
    elif state == "grown":
        # more rows than columns so that row count > column count as well as the other way round elsewhere
        L += ["add_row p0 4 G c4 1 0 1", "add_row p0 40 L c5 2 1 1 2 1", "opt_primal p0"]
        return L, 5, 4
    return L, 3, 4


def bad_idx(n, other):
    """invalid values for an index into range(n); `other` = the count of the other dimension (internal columns = n+other)"""
    S = [-1, n, n + 1, n + other, "INT_MAX", "INT_MIN"]
    if n + other - 1 >= n:
        S.append(n + other - 1)
    out = []
    for v in S:
        if v not in out:
            out.append(v)
    return out


def probes(R, C, state):
    """yields (label, script line).  Every probe is invalid by construction and must be refused."""
    P = []
    rb, cb = bad_idx(R, C), bad_idx(C, R)
    r0, c0 = (0, 0)
    for v in rb:
        P += [("delete_row", "delete_row p0 %s" % v), ("change_sense:row", "change_sense p0 %s L" % v),
              ("change_rhscoef", "change_rhscoef p0 %s 5" % v), ("change_range", "change_range p0 %s 2" % v),
              ("get_binv_row", "get_binv_row p0 %s" % v), ("get_tableau_row", "get_tableau_row p0 %s" % v),
              ("get_rows_list:1", "get_rows_list p0 1 %s" % v), ("get_ranged_rows_list:1", "get_ranged_rows_list p0 1 %s" % v),
              ("delete_rows:1", "delete_rows p0 1 %s" % v), ("change_senses:1", "change_senses p0 1 %s G" % v),
              ("pivotin_row", "pivotin_row p0 1 %s" % v)]
        if C > 0:
            P += [("change_coef:row", "change_coef p0 %s 0 5" % v), ("get_coef:row", "get_coef p0 %s 0" % v),
                  ("add_col:rowind", "add_col p0 1 0 5 NEWC 1 %s 3" % v), ("add_cols:rowind", "add_cols p0 2 1 0 5 NEWC1 0 1 0 5 NEWC2 1 %s 3" % v)]
        if R > 0:
            P += [("delete_rows:last", "delete_rows p0 2 0 %s" % v), ("delete_rows:first", "delete_rows p0 2 %s 0" % v),
                  ("get_rows_list:last", "get_rows_list p0 2 0 %s" % v), ("get_ranged_rows_list:first", "get_ranged_rows_list p0 2 %s 0" % v),
                  ("change_senses:last", "change_senses p0 2 0 G %s L" % v)]
    for v in cb:
        P += [("delete_col", "delete_col p0 %s" % v), ("change_objcoef", "change_objcoef p0 %s 5" % v),
              ("change_bound:col", "change_bound p0 %s L 1" % v), ("change_bound:colU", "change_bound p0 %s U 1" % v),
              ("get_bound:col", "get_bound p0 %s L" % v), ("get_bound:colU", "get_bound p0 %s U" % v),
              ("get_bounds_list:1", "get_bounds_list p0 1 %s" % v), ("get_obj_list:1", "get_obj_list p0 1 %s" % v),
              ("get_columns_list:1", "get_columns_list p0 1 %s" % v), ("delete_cols:1", "delete_cols p0 1 %s" % v),
              ("change_bounds:1", "change_bounds p0 1 %s B 3" % v), ("pivotin_col", "pivotin_col p0 1 %s" % v),
              ("strongbranch:1", "strongbranch p0 1 %s" % v)]
        if R > 0:
            P += [("change_coef:col", "change_coef p0 0 %s 5" % v), ("get_coef:col", "get_coef p0 0 %s" % v)]
        P += [("add_row:colind", "add_row p0 1 L NEWR 1 %s 3" % v), ("add_ranged_row:colind", "add_ranged_row p0 1 R 2 NEWR 1 %s 3" % v),
              ("add_rows:colind", "add_rows p0 2 1 L NEWR1 0 2 G NEWR2 1 %s 3" % v),
              ("add_ranged_rows:colind", "add_ranged_rows p0 2 1 L 0 NEWR1 0 2 R 1 NEWR2 1 %s 3" % v)]
        if C > 0:
            P += [("delete_cols:last", "delete_cols p0 2 0 %s" % v), ("delete_cols:first", "delete_cols p0 2 %s 0" % v),
                  ("get_bounds_list:last", "get_bounds_list p0 2 0 %s" % v), ("get_obj_list:first", "get_obj_list p0 2 %s 0" % v),
                  ("get_columns_list:last", "get_columns_list p0 2 0 %s" % v), ("change_bounds:last", "change_bounds p0 2 0 L 7/3 %s U 3" % v),
                  ("strongbranch:last", "strongbranch p0 2 1 %s" % v), ("strongbranch:last3", "strongbranch p0 3 0 1 %s" % v)]
    if R > 0:
        # a range value for a row that is not a range row
        P += [("change_range:not-a-range-row", "change_range p0 0 2"), ("change_range:not-a-range-row-E", "change_range p0 1 7/3")]
    # names
    P += [("delete_named_row:unknown", "delete_named_row p0 nosuchrow"), ("delete_named_column:unknown", "delete_named_column p0 nosuchcol"),
          ("get_row_index:unknown", "get_row_index p0 nosuchrow"), ("get_column_index:unknown", "get_column_index p0 nosuchcol"),
          ("get_named_x:unknown", "get_named_x p0 nosuchcol"), ("get_named_rc:unknown", "get_named_rc p0 nosuchcol"),
          ("get_named_pi:unknown", "get_named_pi p0 nosuchrow"), ("get_named_slack:unknown", "get_named_slack p0 nosuchrow"),
          ("delete_named_rows_list:unknown", "delete_named_rows_list p0 1 nosuchrow"), ("delete_named_columns_list:unknown", "delete_named_columns_list p0 1 nosuchcol")]
    if R > 0:
        # the same new name twice after a NULL (default-named) entry of the same list
        P += [("add_rows:null-then-dup", "add_rows p0 4 1 L FRA 0 1 L ~ 0 2 G SAME 0 2 G SAME 0"),
              ("add_ranged_rows:null-then-dup", "add_ranged_rows p0 3 1 L 0 ~ 0 2 R 1 SAME 0 2 G 0 SAME 0"),
              ("add_rows:null-then-existing", "add_rows p0 2 1 L ~ 0 2 G c1 0")]
        P += [("new_row:dupname", "new_row p0 1 L c1"), ("add_row:dupname", "add_row p0 1 L c2 1 0 1"), ("add_ranged_row:dupname", "add_ranged_row p0 1 R 1 c1 0"),
              ("add_rows:dupname", "add_rows p0 2 1 L FRESH1 0 2 G c1 0"), ("add_rows:dup-within", "add_rows p0 2 1 L SAME 0 2 G SAME 0"),
              ("delete_named_rows_list:last-unknown", "delete_named_rows_list p0 2 c1 nosuchrow"),
              ("get_named_pi:colname", "get_named_pi p0 x"), ("delete_named_row:colname", "delete_named_row p0 x")]
    if C > 0:
        P += [("add_cols:null-then-dup", "add_cols p0 4 1 0 5 FRA 0 1 0 5 ~ 0 1 0 5 SAME 0 1 0 5 SAME 0"),
              ("add_cols:null-then-existing", "add_cols p0 2 1 0 5 ~ 0 1 0 5 x 0")]
        P += [("new_col:dupname", "new_col p0 1 0 5 x"), ("add_col:dupname", "add_col p0 1 0 5 y 0"), ("add_cols:dupname", "add_cols p0 2 1 0 5 FRESH1 0 1 0 5 x 0"),
              ("add_cols:dup-within", "add_cols p0 2 1 0 5 SAME 0 1 0 5 SAME 0"),
              ("delete_named_columns_list:last-unknown", "delete_named_columns_list p0 2 x nosuchcol"),
              ("get_named_x:rowname", "get_named_x p0 c1"), ("delete_named_column:rowname", "delete_named_column p0 c1")]
    # an index listed twice inside one new row / column
    if C > 1:
        P += [("add_row:dup-index", "add_row p0 1 L NEWR 2 0 3 0 4"), ("add_ranged_row:dup-index", "add_ranged_row p0 1 R 2 NEWR 3 1 1 0 2 1 5"),
              ("add_rows:dup-index", "add_rows p0 2 1 L NEWR1 1 0 1 2 G NEWR2 2 1 3 1 4")]
    if R > 1:
        P += [("add_col:dup-index", "add_col p0 1 0 5 NEWC 2 0 3 0 4"), ("add_cols:dup-index", "add_cols p0 2 1 0 5 NEWC1 1 0 1 1 0 5 NEWC2 3 1 1 0 2 1 3")]
    # an index or name listed twice in a delete list
    if R > 1:
        P += [("delete_rows:dup", "delete_rows p0 2 0 0"), ("delete_rows:dup3", "delete_rows p0 3 1 0 1"),
              ("delete_named_rows_list:dup", "delete_named_rows_list p0 2 c1 c1")]
    if C > 1:
        P += [("delete_cols:dup", "delete_cols p0 2 0 0"), ("delete_cols:dup3", "delete_cols p0 3 1 0 1"),
              ("delete_named_columns_list:dup", "delete_named_columns_list p0 2 x x")]
    # selectors
    for s in ("X", "l", "#0", "#255", "N"):
        P += [("new_row:sense", "new_row p0 1 %s NEWR" % s), ("add_row:sense", "add_row p0 1 %s NEWR 0" % s),
              ("add_ranged_row:sense", "add_ranged_row p0 1 %s 2 NEWR 0" % s), ("add_rows:sense", "add_rows p0 2 1 L NEWR1 0 2 %s NEWR2 0" % s)]
        if R > 0:
            P += [("change_sense:sense", "change_sense p0 0 %s" % s), ("change_senses:sense", "change_senses p0 2 0 G 1 %s" % s)]
    for s in ("X", "l", "u", "#0", "E"):
        if C > 0:
            P += [("change_bound:lu", "change_bound p0 0 %s 1" % s), ("get_bound:lu", "get_bound p0 0 %s" % s),
                  ("change_bounds:lu", "change_bounds p0 2 0 L 7/3 1 %s 3" % s)]
    for s in (0, 2, -2, 7):
        P.append(("change_objsense:value", "change_objsense p0 %d" % s))
    # parameters
    for w, v in ((0, 0), (0, 5), (0, 7), (2, 1), (2, 5), (2, 10), (4, -1), (4, 4), (5, 0), (5, -3), (7, 2), (7, -1), (1, 1), (3, 1), (6, 1), (99, 1), (-1, 1)):
        P.append(("set_param", "set_param p0 %d %d" % (w, v)))
    for w in (1, 3, 99, -1, 6, 8):
        P.append(("get_param", "get_param p0 %d" % w))
    for w in (0, 5, 99, -1):
        P += [("set_param_num", "set_param_num p0 %d 1" % w), ("get_param_num", "get_param_num p0 %d" % w)]
    # bases
    if R > 0:
        good_c, good_r = "0300"[:C], "1" * R          # all logicals basic; y is a free column
        B = [("load_basis:nstruct-1", "make_basis b7 %d %d %s %s" % (C - 1, R, good_c[:C - 1], good_r)),
             ("load_basis:nstruct+1", "make_basis b7 %d %d %s %s" % (C + 1, R, good_c + "0", good_r)),
             ("load_basis:nrows-1", "make_basis b7 %d %d %s %s" % (C, R - 1, good_c, good_r[:R - 1] or "-")),
             ("load_basis:nrows+1", "make_basis b7 %d %d %s %s" % (C, R + 1, good_c, good_r + "0")),
             ("load_basis:no-basics", "make_basis b7 %d %d %s %s" % (C, R, good_c, "0" * R)),
             ("load_basis:too-few-basics", "make_basis b7 %d %d %s %s" % (C, R, good_c, "1" + "0" * (R - 1))),
             ("load_basis:too-many-basics", "make_basis b7 %d %d %s %s" % (C, R, "1" + good_c[1:], good_r)),
             ("load_basis:bad-cstat-char", "make_basis b7 %d %d %s %s" % (C, R, "9" + good_c[1:], good_r)),
             ("load_basis:bad-rstat-char", "make_basis b7 %d %d %s %s" % (C, R, good_c, good_r[:-1] + "7")),
             ("load_basis:rstat-free", "make_basis b7 %d %d %s %s" % (C, R, "1" + good_c[1:], good_r[:-1] + "3"))]
        # mismatches that cancel out in nstruct+nrows, each internally consistent for its own dimensions (a stale basis
        # kept across "add a row, delete a column" looks like this)
        for k in (1, 2):
            if R - k >= 1:
                B.append(("load_basis:cols+%d-rows-%d" % (k, k), "make_basis b7 %d %d %s %s" % (C + k, R - k, good_c + "0" * k, "1" * (R - k))))
            if C - k >= 0:
                B.append(("load_basis:cols-%d-rows+%d" % (k, k), "make_basis b7 %d %d %s %s" % (C - k, R + k, good_c[:C - k] or "-", "1" * (R + k))))
        for lab, mk in B:
            P.append((lab, mk + "\nload_basis p0 b7"))
            if "cols" in lab:
                P.append((lab.replace("load_basis", "write_basis"), mk + "\nwrite_basis p0 b7 @W@/bad2.bas"))
                P.append((lab.replace("load_basis", "basis_optimalstatus"), mk + "\nbasis_optimalstatus p0 b7"))
                P.append((lab.replace("load_basis", "basis_dualstatus"), mk + "\nbasis_dualstatus p0 b7"))
        P += [("load_basis_array:no-basics", "load_basis_array p0 %s %s" % (good_c, "0" * R)),
              ("load_basis_array:too-many-basics", "load_basis_array p0 %s %s" % ("1" + good_c[1:], good_r)),
              ("load_basis_array:bad-char", "load_basis_array p0 %s %s" % ("Z" + good_c[1:], good_r)),
              ("load_basis_norms:null-norms", "load_basis_norms p0 %s %s 0" % (good_c, good_r)),
              ("load_basis_norms:no-basics", "load_basis_norms p0 %s %s %d %s" % (good_c, "0" * R, R, " ".join(["1"] * R))),
              ("write_basis:bad-basis", "make_basis b7 %d %d %s %s\nwrite_basis p0 b7 @W@/bad.bas" % (C + 1, R, good_c + "0", good_r)),
              ("basis_optimalstatus:size", "make_basis b7 %d %d %s %s\nbasis_optimalstatus p0 b7" % (C + 1, R, good_c + "0", good_r)),
              ("basis_dualstatus:size", "make_basis b7 %d %d %s %s\nbasis_dualstatus p0 b7" % (C, R + 1, good_c, good_r + "1"))]
    # QSload_prob / QScreate_prob with invalid descriptions (built into another slot; must return NULL)
    for v in (-1, 2, 3, "INT_MAX", "INT_MIN"):
        P.append(("load:rowind", "load p1 bad min 2 2 a 1 0 5 1 %s 1 b 1 0 5 1 0 1 r1 L 1 r2 G 0" % v))
    P += [("load:dup-colname", "load p1 bad min 2 1 a 1 0 5 1 0 1 a 1 0 5 0 r1 L 1"),
          ("load:dup-rowname", "load p1 bad min 1 2 a 1 0 5 1 0 1 r1 L 1 r1 G 0"),
          ("load:sense", "load p1 bad min 1 1 a 1 0 5 1 0 1 r1 X 1"), ("load:sense0", "load p1 bad min 1 1 a 1 0 5 1 0 1 r1 #0 1"),
          ]   # QScreate_prob/QSload_prob document "anything but QS_MAX means minimise": objsense is not probed there
    P += [("read_basis:nofile", "read_basis p0 @W@/does-not-exist.bas b6"), ("read_and_load_basis:nofile", "read_and_load_basis p0 @W@/does-not-exist.bas"),
          ("write_prob:type", "write_prob p0 @W@/o.xx XX"), ("write_prob_file:type", "write_prob_file p0 @W@/o2.xx LPX"),
          ("write_prob:dir", "write_prob p0 @W@/no/such/dir/o.lp LP"), ("write_basis:dir", "write_basis p0 - @W@/no/such/dir/o.bas")]
    return P


def gen_cases(tier):
    cases = []
    for st in STATES:
        L, R, C = setup(st)
        for k, (lab, line) in enumerate(probes(R, C, st)):
            lines = L + ["writehash p0", "dumpx p0", "dumpsol p0 1"] + line.split("\n") + ["dumpx p0", "dumpsol p0 1", "writehash p0", "storecheck p0"]
            cases.append(run.Case("C07-%s-%d" % (st, k), lines, dict(state=st, label=lab, probe=line, nset=len(L))))
    return cases


def strip(ev):
    return {k: v for k, v in ev.items() if k not in VOLATILE}


def judge(case, res):
    lab, st = case.meta["label"], case.meta["state"]
    fn = lab.split(":")[0]
    if res.crash:
        return [("C07|%s|%s|%s" % (fn, res.crash["kind"], ">".join(res.crash["frames"][:2])),
                 "probe `%s` in state %s: process died: %s\n%s" % (case.meta["probe"], st, res.crash["kind"], res.crash["text"][:1200]))]
    if res.timeout:
        return [("C07|%s|hang" % fn, "probe `%s` in state %s did not return" % (case.meta["probe"], st))]
    dx, ds = res.evs("dumpx"), res.evs("dumpsol")
    if len(dx) != 2 or len(ds) != 2:
        raise run.HarnessError("probe case %s incomplete" % case.id)
    V = []
    # the probe record is the last non-dump record between the dumps
    i0 = res.events.index(ds[0])
    i1 = res.events.index(dx[1])
    pe = [e for e in res.events[i0 + 1:i1]]
    if not pe:
        raise run.HarnessError("no probe event in %s" % case.id)
    pev = pe[-1]
    if pev.get("rc") == 0:
        V.append(("C07|%s|accepted" % lab, "state %s: `%s` returned 0 (accepted an invalid argument)" % (st, case.meta["probe"])))
    a, b = strip(dx[0]), strip(dx[1])
    if a != b:
        diff = [k for k in set(a) | set(b) if a.get(k) != b.get(k)]
        V.append(("C07|%s|problem-changed" % lab, "state %s: `%s` (rc=%r) changed the problem: %s" % (st, case.meta["probe"], pev.get("rc"), sorted(diff)[:8])))
    wh = res.evs("writehash")
    if len(wh) == 2 and strip(wh[0]) != strip(wh[1]):
        V.append(("C07|%s|written-text-changed" % lab, "state %s: `%s` (rc=%r) changed what the writers put into a file: %s -> %s" % (st, case.meta["probe"], pev.get("rc"), strip(wh[0]), strip(wh[1]))))
    a, b = strip(ds[0]), strip(ds[1])
    if a != b:
        diff = [k for k in set(a) | set(b) if a.get(k) != b.get(k)]
        V.append(("C07|%s|solution-or-basis-changed" % lab, "state %s: `%s` (rc=%r) changed stored solution/basis/status: %s" % (st, case.meta["probe"], pev.get("rc"), sorted(diff)[:8])))
    sc = res.ev("storecheck")
    if sc is not None and sc.get("ok") != 1:
        V.append(("C07|%s|store-corrupt" % lab, "state %s: `%s` left the sparse store inconsistent: %s" % (st, case.meta["probe"], sc.get("why"))))
    return V


def chunk(payload):
    idx, bindir = payload["idx"], payload["bindir"]
    allc = gen_cases(payload["tier"])
    wd = run.workdir("C07-%d" % idx[0])
    part = dict(evaluations=0, distinct=[], counters={}, violations=[], inconclusive=[], samples=[])
    cnt = part["counters"]
    try:
        for i in idx:
            c = allc[i]
            res = run.run_cases(os.path.join(bindir, "qsdrive"), [c], os.path.join(wd, "c%d" % i), batch=1, timeout=120)
            V = judge(c, res[c.id])
            part["evaluations"] += 1
            part["distinct"].append(run.h(c.meta["state"], c.meta["probe"]))
            cnt["state:" + c.meta["state"]] = cnt.get("state:" + c.meta["state"], 0) + 1
            cnt["fn:" + c.meta["label"].split(":")[0]] = cnt.get("fn:" + c.meta["label"].split(":")[0], 0) + 1
            for key, what in V:
                part["violations"].append(dict(key=key, what=what, replay=run.save_replay("C07", c, what)))
            if not part["samples"]:
                part["samples"].append(dict(state=c.meta["state"], probe=c.meta["probe"], script=c.script))
    finally:
        run.cleanup(wd)
    return part


RULE = ("enumeration of the probe table in checks/c07.py: every public mpq_QS* function taking an index, name, selector, parameter or basis x "
        "invalid values {-1, count, count+1, internal column count, internal-1, INT_MAX, INT_MIN; bad element first/last in lists; unknown/duplicate "
        "names; selectors outside LGER / LUB; parameter ids and values outside their sets; malformed bases} x lifecycle states %s; one process per "
        "probe; non-trivial = the probe reached the library with an invalid value (all); distinct = (state, probe line)" % STATES)


def run_check(prop, tier, seed):
    b = run.builds(["asan"])
    rep = run.Report(prop, tier, seed, RULE, level="fault_enumeration")
    n = len(gen_cases(tier))
    per = 12
    payloads = [dict(tier=tier, idx=list(range(s, min(s + per, n))), bindir=b["asan"]) for s in range(0, n, per)]
    for part in run.pool_map("checks.c07", "chunk", payloads):
        rep.merge(part)
    rep.extra["exhaustive"] = True
    rep.extra["probe_table_size"] = n
    return rep.finish(floor=500)


def replay(prop, path):
    b = run.builds(["asan"])
    case, d = run.load_replay(path)
    wd = run.workdir("replayC07")
    try:
        res = run.run_cases(os.path.join(b["asan"], "qsdrive"), [case], wd, batch=1)
        V = judge(case, res[case.id])
    finally:
        run.cleanup(wd)
    for key, what in V:
        print("VIOLATION property=C07 replay=%s\n  key: %s\n  what: %s" % (path, key, what[:1500]))
    if not V:
        print("replay: no violation reproduced")
    return 1 if V else 0
