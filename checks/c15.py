"""C15: equivalent formulations of an LP receive equivalent answers (metamorphic relations at sizes beyond the reference solver)."""
import os, sys
sys.path.insert(0, os.path.dirname(os.path.dirname(os.path.abspath(__file__))))
from fractions import Fraction as F
from vlib import run, gen_lp, model, cert
from vlib.model import LP, Col, Row, MIN, MAX
from vlib.rat import INF, NINF, parse, parse_list, isinf
from checks import solvefam as sf

Z = F(0)


def base_lp(rnd, tier, big=False):
    lo, hi = (40, 130) if tier == "quick" else (100, 400)
    nr = rnd.randint(lo, hi)
    nc = rnd.randint(lo, int(hi * 1.5))
    if big == "large":
        # enough pivots in each phase for several refactorizations (eta limit 100) between start and stop
        nr, nc = rnd.randint(170, 230), rnd.randint(260, 340)
    elif big:
        # beyond 200 rows / 400 columns the library switches to the crash initial basis (and partial pricing kicks in)
        nr, nc = rnd.randint(200, 260), rnd.randint(400, 470)
    kind = rnd.choice(["opt", "opt", "opt", "inf", "unb"])
    if big == "large" and kind == "unb":
        kind = "opt"        # an UNBOUNDED answer at this size is established by the pure rational simplex: minutes per solve
    if big == "large" and kind == "opt" and rnd.random() < 0.6:
        return gen_lp.cover(rnd, nr, nc)
    dens = min(1.0, rnd.choice([3.0, 5.0, 8.0]) / nc)
    if kind == "opt":
        m = gen_lp.planted_optimal(rnd, nr, nc, "int", dens=dens)
    elif kind == "inf":
        m = gen_lp.planted_optimal(rnd, nr, nc, "int", dens=dens)
        w = [F(rnd.randint(-3, 3)) if rnd.random() < 0.1 else Z for _ in range(nc)]
        if all(v == 0 for v in w):
            w[0] = F(1)
        a = F(rnd.randint(-5, 5))
        r1 = Row(None, "L", a, 0, {m.cols[j]: v for j, v in enumerate(w) if v})
        r2 = Row(None, "G", a + F(1, 2 ** rnd.choice([1, 30, 70])), 0, {m.cols[j]: v for j, v in enumerate(w) if v})
        m.rows.insert(rnd.randrange(len(m.rows) + 1), r1)
        m.rows.insert(rnd.randrange(len(m.rows) + 1), r2)
        m.truth = dict(status="INFEASIBLE")
    else:
        m = gen_lp.planted_optimal(rnd, nr, nc, "int", dens=dens)
        s = m.objsense
        c = Col(None, -s * F(rnd.randint(1, 5)), Z, INF)
        m.cols.append(c)
        for r in m.rows:
            if rnd.random() < 0.05:
                if r.sense == "L":
                    r.coef[c] = -F(rnd.randint(1, 4))
                elif r.sense == "G":
                    r.coef[c] = F(rnd.randint(1, 4))
        m.truth = dict(status="UNBOUNDED")
    for j, c in enumerate(m.cols):
        c.name = "C%d" % j
    for i, r in enumerate(m.rows):
        r.name = "R%d" % i
    return m


def transform(rnd, m0):
    """-> (model, alpha, beta, applied): value(model) = alpha * value(m0) + beta"""
    m = m0.clone()
    alpha, beta = F(1), Z
    applied = []
    for _ in range(rnd.randint(2, 5)):
        t = rnd.choice(["rowperm", "colperm", "rowscale", "rowneg", "varscale", "varshift", "objneg", "rowdup", "redundant", "eqsplit"])
        applied.append(t)
        if t == "rowperm":
            rnd.shuffle(m.rows)
        elif t == "colperm":
            rnd.shuffle(m.cols)
        elif t in ("rowscale", "rowneg"):
            for r in rnd.sample(m.rows, max(1, len(m.rows) // 4)):
                k = F(rnd.randint(1, 9), rnd.choice([1, 2, 3, 7]))
                if t == "rowneg":
                    k = -k
                lo, hi = r.lohi()
                for c in list(r.coef):
                    r.coef[c] *= k
                if k > 0:
                    r.rhs *= k
                    r.range *= k
                else:
                    if r.sense == "L":
                        r.sense, r.rhs = "G", r.rhs * k
                    elif r.sense == "G":
                        r.sense, r.rhs = "L", r.rhs * k
                    elif r.sense == "E":
                        r.rhs *= k
                    else:
                        r.rhs, r.range = k * (r.rhs + r.range), -k * r.range
        elif t == "varscale":
            for c in rnd.sample(m.cols, max(1, len(m.cols) // 4)):
                k = F(rnd.randint(1, 9), rnd.choice([1, 2, 5])) * rnd.choice([1, 1, -1])
                # x = k x'
                for r in m.rows:
                    if c in r.coef:
                        r.coef[c] *= k
                c.obj *= k
                lo = c.lo / k if not isinf(c.lo) else (NINF if k > 0 else INF)
                up = c.up / k if not isinf(c.up) else (INF if k > 0 else NINF)
                if isinf(c.lo) and k < 0:
                    lo = INF
                if isinf(c.up) and k < 0:
                    up = NINF
                if k > 0:
                    c.lo, c.up = lo, up
                else:
                    c.lo, c.up = up, lo
        elif t == "varshift":
            for c in rnd.sample(m.cols, max(1, len(m.cols) // 4)):
                sh = F(rnd.randint(-9, 9), rnd.choice([1, 2, 3]))
                # x = x' + sh
                for r in m.rows:
                    if c in r.coef:
                        r.rhs -= r.coef[c] * sh
                if not isinf(c.lo):
                    c.lo -= sh
                if not isinf(c.up):
                    c.up -= sh
                beta -= c.obj * sh
        elif t == "objneg":
            for c in m.cols:
                c.obj = -c.obj
            m.objsense = MAX if m.objsense == MIN else MIN
            alpha, beta = -alpha, -beta
        elif t == "rowdup":
            r = rnd.choice(m.rows)
            k = F(rnd.choice([1, 1, 2, 3]))
            m.rows.insert(rnd.randrange(len(m.rows) + 1), Row(None, r.sense, r.rhs * k, r.range * k, {c: v * k for c, v in r.coef.items()}))
        elif t == "redundant":
            cand = [r for r in m.rows if r.sense in ("L", "G", "E")]
            if len(cand) >= 2:
                a, b = rnd.sample(cand, 2)
                # bring both to <= form and add with non-negative multipliers (any multiplier for equalities)
                def le(r):
                    sg = -1 if r.sense == "G" else 1
                    return {c: v * sg for c, v in r.coef.items()}, r.rhs * sg
                ca, ra = le(a)
                cb, rb = le(b)
                wa, wb = F(rnd.randint(1, 4)), F(rnd.randint(1, 4))
                co = {}
                for c, v in ca.items():
                    co[c] = co.get(c, Z) + wa * v
                for c, v in cb.items():
                    co[c] = co.get(c, Z) + wb * v
                co = {c: v for c, v in co.items() if v != 0}
                if co:
                    m.rows.append(Row(None, "L", wa * ra + wb * rb + F(rnd.randint(0, 3)), 0, co))
        elif t == "eqsplit":
            eq = [i for i, r in enumerate(m.rows) if r.sense == "E"]
            for i in rnd.sample(eq, min(len(eq), 3)):
                r = m.rows[i]
                r.sense = "L"
                m.rows.append(Row(None, "G", r.rhs, 0, dict(r.coef)))
    for j, c in enumerate(m.cols):
        c.name = "V%d" % j
    for i, r in enumerate(m.rows):
        r.name = "W%d" % i
    assert m.wellformed()
    return m, alpha, beta, applied


def gen_group(tier, seed, k):
    rnd = run.rng("C15", tier, seed, "grp", k)
    small = k % 4 == 1
    if small:
        # small groups are (also) solved by the rational simplex itself, with and without scaling: its reported value comes from
        # other code than the exact driver's (dual objective bookkeeping, fixed and boxed columns)
        m0 = gen_lp.boxed(rnd) if rnd.random() < 0.4 else gen_lp.planted_optimal(rnd, rnd.randint(4, 18), rnd.randint(4, 22), "int")
        for c in m0.cols:
            c.name = None
        for r in m0.rows:
            r.name = None
        m0 = gen_lp._names(m0)
    else:
        m0 = base_lp(rnd, tier, big=(True if (tier == "thorough" and k % 8 == 7) else ("large" if (k % 4 == 3 or k >= 32) else False)))
    nvar = (5 if small else 3) if tier == "quick" else 7
    variants = [(m0, F(1), Z, ["identity"])] + [transform(rnd, m0) for _ in range(nvar)]
    cases = []
    for t, (m, a, b, ap) in enumerate(variants):
        algo = rnd.choice(["primal", "dual"])
        L = model.script_build(m, "p0", rowwise=rnd.random() < 0.5)
        entry = "solve_exact p0 %s - xy" % algo
        if small and rnd.random() < 0.75:
            entry = rnd.choice(["opt_dual p0", "opt_dual p0", "opt_primal p0"])
            L.append("set_param p0 5 3000")
        L += ["set_param p0 0 %d" % rnd.choice(sf.PP), "set_param p0 2 %d" % rnd.choice(sf.DP), "set_param p0 7 %d" % rnd.choice([0, 1]),
              entry, "dumpsol p0"]
        cases.append(run.Case("C15-%d-%d" % (k, t), L, dict(group=k, variant=t, applied=ap, tier=tier, seed=seed)))
    return m0, variants, cases


def judge_group(m0, variants, cases, res):
    V, C = [], {}
    obs = []
    for (m, a, b, ap), c in zip(variants, cases):
        r = res[c.id]
        if r.crash:
            V.append((run.crash_key("C15", r.crash), "process died in %s: %s\n%s" % (r.crash.get("op"), r.crash["kind"], r.crash["text"][:1200]), c))
            continue
        if r.timeout:
            C["watchdog_inconclusive"] = C.get("watchdog_inconclusive", 0) + 1
            continue
        ev = r.ev("solve_exact") or r.ev("opt_dual") or r.ev("opt_primal")
        ds = r.ev("dumpsol")
        st = ev.get("status")
        C["solves"] = C.get("solves", 0) + 1
        C["status:" + sf.ST.get(st, str(st))] = C.get("status:" + sf.ST.get(st, str(st)), 0) + 1
        for tname in ap:
            C["transform:" + tname] = C.get("transform:" + tname, 0) + 1
        C["rows>=100" if m.nrows >= 100 else "rows<100"] = C.get("rows>=100" if m.nrows >= 100 else "rows<100", 0) + 1
        if (ev.get("rc") != 0 or st not in (1, 2, 3)) and ev.get("op") in ("opt_dual", "opt_primal"):
            # the pure rational simplex may cycle on degenerate LPs and stop at its iteration bound: not a definitive answer
            C["rational-simplex-non-definitive"] = C.get("rational-simplex-non-definitive", 0) + 1
            continue
        if ev.get("rc") != 0 or st not in (1, 2, 3):
            V.append(("C15|non-definitive|%s" % sf.ST.get(st, st), "variant %s of a well-formed LP (%dx%d) ended with rc=%r status %s" % (ap, m.nrows, m.ncols, ev.get("rc"), sf.ST.get(st, st)), c))
            continue
        val = None
        if st == 1:
            val = parse(ds["objval"])
            x, pi = parse_list(ds["x"]), parse_list(ds["pi"])
            bad = cert.check_optimal(m, val, x, pi, parse_list(ds["rcv"]), parse_list(ds["slack"]))
            if bad:
                V.append(("C15|cert|%s" % bad[0].split(" ")[0], "OPTIMAL at %dx%d fails the exact certificate: %s" % (m.nrows, m.ncols, bad[0][:300]), c))
        obs.append((st, val, a, b, ap, c))
    if obs:
        st0, v0, a0, b0, ap0, c0 = obs[0]
        truth = getattr(m0, "truth", None)
        if truth and sf.ST[st0] != truth["status"]:
            V.append(("C15|planted-truth|%s-vs-%s" % (sf.ST[st0], truth["status"]), "base LP solved to %s but is planted %s" % (sf.ST[st0], truth["status"]), c0))
        elif truth and st0 == 1 and "value" in truth and ap0 == ["identity"] and v0 != truth["value"]:
            V.append(("C15|planted-value", "base LP value %s, planted optimum %s" % (v0, truth["value"]), c0))
        # map everything back to the base LP's value: v = (v' - b)/a
        base = None
        for st, v, a, b, ap, c in obs:
            if st != st0:
                V.append(("C15|status|%s-vs-%s" % tuple(sorted([sf.ST[st], sf.ST[st0]])), "variant %s solves to %s, variant %s to %s" % (ap, sf.ST[st], ap0, sf.ST[st0]), c))
            elif st == 1:
                back = (v - b) / a
                if base is None:
                    base = back
                elif back != base:
                    V.append(("C15|value|%s" % "+".join(sorted(set(ap))), "variant %s has optimum %s which maps back to %s, but another variant gives %s" % (ap, v, back, base), c))
    return V, C, len(obs) >= 2


def chunk(payload):
    tier, seed, ks, bindir = payload["tier"], payload["seed"], payload["ks"], payload["bindir"]
    wd = run.workdir("C15-%d" % ks[0])
    part = dict(evaluations=0, distinct=[], counters={}, violations=[], inconclusive=[], samples=[], max={})
    cnt = part["counters"]
    try:
        for k in ks:
            m0, variants, cases = gen_group(tier, seed, k)
            big = m0.nrows > 150
            res = run.run_cases(os.path.join(bindir["plain" if big else "asan"], "qsdrive"), cases, os.path.join(wd, "g%d" % k), batch=1, timeout=1800)
            V, C, nontriv = judge_group(m0, variants, cases, res)
            part["evaluations"] += len(cases)
            cnt["groups"] = cnt.get("groups", 0) + 1
            cnt["flavour:" + ("plain" if big else "asan")] = cnt.get("flavour:" + ("plain" if big else "asan"), 0) + 1
            part["max"]["max_rows"] = max(part["max"].get("max_rows", 0), max(v[0].nrows for v in variants))
            part["max"]["max_cols"] = max(part["max"].get("max_cols", 0), max(v[0].ncols for v in variants))
            for a, b in C.items():
                cnt[a] = cnt.get(a, 0) + b
            if nontriv:
                part["distinct"] += [run.h(c.script) for c in cases]
            if C.get("watchdog_inconclusive"):
                part["inconclusive"].append("watchdog in group %d" % k)
            for key, what, c in V:
                part["violations"].append(dict(key=key, what=what, replay=run.save_replay("C15", c, what)))
            if not part["samples"]:
                part["samples"].append(dict(group=k, base_size=[m0.nrows, m0.ncols], transforms=[v[3] for v in variants], first_script_head=cases[1].script[:6]))
    finally:
        run.cleanup(wd)
    return part


RULE = ("groups: a planted LP (optimal / infeasible by margins down to 2^-70 / unbounded; 40-130 rows in quick, 100-400 in thorough, sparse; `large` groups of 170-230 rows x 260-340 columns, planted or covering-type (min c.x, Ax>=b, x>=0, several refactorizations per phase)) and 3 (7) variants obtained by random "
        "compositions of {row/column permutation, positive and negative row scaling with sense flip, variable rescaling and shift, objective negation with min<->max, row "
        "duplication, redundant non-negative row combination, equality -> two inequalities}; each variant solved by QSexact_solver (random algorithm, pricing, scaling) in its "
        "own process; statuses must coincide and optimal values must coincide after the exact affine correction; every OPTIMAL result is also checked against the exact "
        "optimality certificate at that size; non-trivial = group with >=2 definitive results; distinct = hash(script)")


def run_check(prop, tier, seed):
    b = run.builds(["asan", "plain"])
    rep = run.Report(prop, tier, seed, RULE)
    n = 72 if tier == "quick" else 400        # groups 32.. are all `large` (cheap: the exact driver only verifies there)
    payloads = [dict(tier=tier, seed=seed, ks=[k], bindir=b) for k in sorted(range(n), key=lambda k: 0 if k % 8 == 7 else 1)]
    for part in run.pool_map("checks.c15", "chunk", payloads):
        rep.merge(part)
    return rep.finish(floor=40)


def replay(prop, path):
    b = run.builds(["asan", "plain"])
    case, d = run.load_replay(path)
    meta = d.get("meta", {})
    part = chunk(dict(tier=meta.get("tier", "quick"), seed=meta.get("seed", 1), ks=[meta.get("group")], bindir=b))
    for v in part["violations"]:
        print("VIOLATION property=C15 replay=%s\n  key: %s\n  what: %s" % (path, v["key"], v["what"][:1500]))
    if not part["violations"]:
        print("replay: no violation reproduced")
    return 1 if part["violations"] else 0
