"""C12: basis verdicts and returned bases are exact."""
import os, sys
sys.path.insert(0, os.path.dirname(os.path.dirname(os.path.abspath(__file__))))
from fractions import Fraction as F
from vlib.rat import INF, NINF
from vlib import run, gen_lp, model, basis as vbasis, script as vscript
from vlib.rat import parse, fmt
from checks import solvefam as sf


def small_lp(rnd):
    fam = rnd.choice(["rand", "rand", "planted", "degenerate"])
    if fam == "planted":
        m = gen_lp.planted_optimal(rnd, rnd.randint(1, 3), rnd.randint(1, 4), rnd.choice(["int", "small"]))
    elif fam == "degenerate":
        m = gen_lp.small_rand(rnd, 3, 4, "int")
        for r in m.rows:
            if rnd.random() < 0.6:
                r.rhs = F(0)
    else:
        m = gen_lp.small_rand(rnd, 3, 4, rnd.choice(["int", "small"]))
    for j, c in enumerate(m.cols):
        c.name = "C%d" % j
    for i, r in enumerate(m.rows):
        r.name = "R%d" % i
    return m


def gen_enum_case(tier, seed, k):
    rnd = run.rng("C12", tier, seed, "enum", k)
    m = small_lp(rnd)
    bases = vbasis.enumerate_bases(m, rnd, limit=None)
    full = True
    cap = 260 if tier == "quick" else 2500
    if len(bases) > cap:
        rnd.shuffle(bases)
        bases = bases[:cap]
        full = False
    L = model.script_build(m, "p0") + ["set_param p0 5 3000"]
    for t, (cs, rs) in enumerate(bases):
        L.append("make_basis b1 %d %d %s %s" % (m.ncols, m.nrows, cs, rs))
        L.append("basis_optimalstatus p0 b1")
        L.append("basis_dualstatus p0 b1")
        if t % 7 == 0:
            L.append("verify p0 b1 %d 0" % (t // 7 % 2))
    # `sloppy` twins: a nonbasic status that names a bound the column does not have.  The library moves such a column to its
    # finite bound when it loads a basis (comment in ILLbasis_load), so the verdicts must be those of the tidy basis (or the
    # call must fail); what it may not do is judge some third vertex.
    sloppy = []
    for t, (cs, rs) in enumerate(bases):
        if len(sloppy) >= 40:
            break
        if cs == "-":
            continue
        c2 = list(cs)
        for j, c in enumerate(m.cols):
            if c2[j] == "0" and c.up == INF and c.lo != NINF:
                c2[j] = "2"
            elif c2[j] == "2" and c.lo == NINF and c.up != INF:
                c2[j] = "0"
        if "".join(c2) != cs:
            sloppy.append((t, "".join(c2)))
            L.append("make_basis b2 %d %d %s %s" % (m.ncols, m.nrows, "".join(c2), rs))
            L.append("basis_optimalstatus p0 b2")
            L.append("basis_dualstatus p0 b2")
    return run.Case("C12-enum-%d" % k, L, dict(kind="enum", full=full, sloppy=sloppy)), m, bases


def gen_ret_case(tier, seed, k):
    rnd = run.rng("C12", tier, seed, "ret", k)
    m = gen_lp.family(rnd, rnd.choice(["small-rand", "small-int", "degenerate", "planted-opt", "planted-opt", "illcond", "thin", "tiny"]))
    cfg = sf.rnd_config(rnd, entries=("exact-primal", "exact-dual"), limits=False)
    lines, slot = sf.case_script(rnd, m, cfg, returns_basis=True)
    # the judged solve returns its basis in b0; then verdicts on it and a warm start from it on a fresh object
    L = lines + ["dump_basis b0", "basis_optimalstatus p0 b0", "basis_dualstatus p0 b0", "verify p0 b0 0 0", "verify p0 b0 1 0", "verify p0 b0 1 1"]
    L += model.script_build(m, "p3") + sf.param_lines(cfg, "p3") + ["solve_exact p3 %s b0 xy" % ("primal" if cfg["entry"] == "exact-primal" else "dual"), "dumpsol p3"]
    return run.Case("C12-ret-%d" % k, L, dict(kind="ret", cfg=cfg)), m


def gen_degenwarm_case(tier, seed, k):
    """a solved LP whose costs are then moved by 2^-k (far below the double tolerances) and which is re-solved by the exact driver
    from the old optimal basis: at a degenerate vertex the old basis may stay primal feasible without being dual feasible any
    more; the basis handed back with OPTIMAL has to be confirmed by the verdict functions."""
    rnd = run.rng("C12", tier, seed, "degenwarm", k)
    gadget = rnd.random() < 0.6
    if gadget:
        # a degenerate vertex by construction: x1 + x2 >= a(1+u), x1 - x2 >= a(1-u), 0 <= x2 <= a*u: at (a, a*u) both rows and the
        # bound of x2 are tight; min x1 - x2 is optimal there for every basis of that vertex, min x1 - (1+eps) x2 only for some
        m = gen_lp.planted_optimal(rnd, rnd.randint(0, 2), rnd.randint(0, 2), "int") if rnd.random() < 0.5 else model.LP("dg", model.MIN)
        s_ = F(m.objsense)
        a_, u = F(rnd.randint(1, 4)), F(rnd.randint(1, 3))
        x1 = model.Col(None, s_ * 1, F(0), INF)
        x2 = model.Col(None, s_ * -1, F(0), a_ * u)
        r1 = model.Row(None, "G", a_ * (1 + u), 0, {x1: F(1), x2: F(1)})
        r2 = model.Row(None, "G", a_ * (1 - u), 0, {x1: F(1), x2: F(-1)})
        if m.objsense == model.MAX:
            x1.obj, x2.obj = F(-1), F(1)
        front = rnd.random() < 0.5
        m.cols = ([x1, x2] + m.cols) if front else (m.cols + [x1, x2])
        m.rows = ([r1, r2] + m.rows) if rnd.random() < 0.5 else (m.rows + [r1, r2])
        for c in m.cols:
            c.name = None
        for r in m.rows:
            r.name = None
        m = gen_lp._names(m)
        gj = m.cols.index(x2)
    else:
        m = gen_lp.family(rnd, rnd.choice(["degenerate", "degenerate", "boxed", "small-int", "planted-opt", "tiny"]))
    cfg = sf.rnd_config(rnd, entries=("exact-primal", "exact-dual"), limits=False, bases=False)
    algo = "primal" if cfg["entry"] == "exact-primal" else "dual"
    L = model.script_any(m, "p0", rnd) + sf.param_lines(cfg, "p0") + ["solve_exact p0 %s b0 xy" % algo]
    if gadget and rnd.random() < 0.5:
        # start from the basis {x1, x2} of the degenerate vertex rather than from whatever the first solve ended on
        cs = "".join("1" if c in (x1, x2) else ("0" if c.lo != NINF else ("2" if c.up != INF else "3")) for c in m.cols)
        rs = "".join("0" if r in (r1, r2) else "1" for r in m.rows)
        if cs.count("1") + rs.count("1") == m.nrows:
            L.append("make_basis b0 %d %d %s %s" % (m.ncols, m.nrows, cs, rs))
    for _ in range(rnd.randint(1, 3)):
        if not m.ncols:
            break
        j = gj if gadget else rnd.randrange(m.ncols)
        c = m.cols[j]
        c.obj = c.obj + F(rnd.choice([1, -1]), 2 ** rnd.choice([30, 40, 50, 51, 52, 53, 60]))
        L.append("change_objcoef p0 %d %s" % (j, fmt(c.obj)))
        if gadget:
            break
    L += ["solve_exact p0 %s b0 xy" % rnd.choice(["primal", "dual"]), "dumpsol p0", "dump_basis b0", "basis_optimalstatus p0 b0", "basis_dualstatus p0 b0"]
    return run.Case("C12-degenwarm-%d" % k, L, dict(kind="degenwarm", cfg=cfg)), m


def judge_degenwarm(case, res, m):
    V, C = [], {}
    if res.crash:
        return [(run.crash_key("C12", res.crash), "process died in %s: %s\n%s" % (res.crash.get("op"), res.crash["kind"], res.crash["text"][:1500]))], {"crash": 1}, 0
    if res.timeout:
        return [], {"watchdog_inconclusive": 1}, 0
    sv = res.evs("solve_exact")
    if len(sv) < 2 or sv[-1].get("rc") != 0 or sv[-1].get("status") != 1:
        return V, {"degenwarm:not-optimal": 1}, 0
    C["degenwarm:optimal"] = 1
    eo, ed, ds = res.ev("basis_optimalstatus"), res.ev("basis_dualstatus"), res.ev("dumpsol")
    bas = sv[-1].get("basis") or {}
    desc = "warm re-solve after a 2^-k cost change returned OPTIMAL with basis c=%s r=%s" % (bas.get("cstat"), bas.get("rstat"))
    if eo is None or eo.get("rc") != 0 or eo.get("result") != 1:
        V.append(("C12|degenwarm|returned-basis-not-optimal", "%s, QSexact_basis_optimalstatus says %r" % (desc, eo)))
    if ed is None or ed.get("rc") != 0 or ed.get("result") != 1:
        V.append(("C12|degenwarm|returned-basis-not-dual-feasible", "%s, QSexact_basis_dualstatus says %r" % (desc, ed)))
    elif ds is not None and ds.get("objval_rc") == 0 and not check_dobj(m, parse(ed["dobjval"]), parse(ds["objval"])):
        V.append(("C12|degenwarm|dual-bound-differs", "%s: dual bound %s, objective %s" % (desc, ed["dobjval"], ds["objval"])))
    return V, C, 1


def check_dobj(m, dobj, value):
    return dobj == value or (m.objsense == model.MAX and dobj == -value)


def judge_enum(case, res, m, bases):
    V, C = [], {}
    if res.crash:
        return [(run.crash_key("C12", res.crash), "process died in %s: %s\n%s" % (res.crash.get("op"), res.crash["kind"], res.crash["text"][:1500]))], {"crash": 1}, 0
    if res.timeout:
        return [], {"watchdog_inconclusive": 1}, 0
    evs = [e for e in res.events if e["op"] in ("basis_optimalstatus", "basis_dualstatus", "verify")]
    it = iter(evs)
    n = 0
    tidy = {}
    for t, (cs, rs) in enumerate(bases):
        eo = next(it)
        ed = next(it)
        tidy[t] = (eo, ed)
        ev = next(it) if t % 7 == 0 else None
        E = vbasis.evaluate(m, cs if cs != "-" else "", rs if rs != "-" else "")
        if not E["valid"]:
            raise run.HarnessError("enumerated basis invalid: %s" % E.get("reason"))
        if E.get("singular"):
            C["singular"] = C.get("singular", 0) + 1
            continue
        n += 1
        C["nonsingular"] = C.get("nonsingular", 0) + 1
        opt = E["pfeas"] and E["dfeas"]
        C["truth:%s%s" % ("P" if E["pfeas"] else "p", "D" if E["dfeas"] else "d")] = C.get("truth:%s%s" % ("P" if E["pfeas"] else "p", "D" if E["dfeas"] else "d"), 0) + 1
        desc = "basis c=%s r=%s (exact: primal feasible %s, dual feasible %s, value %s)" % (cs, rs, E["pfeas"], E["dfeas"], E["value"])
        if eo.get("rc") != 0:
            V.append(("C12|optimalstatus|error", "QSexact_basis_optimalstatus failed (rc %r) on non-singular %s" % (eo.get("rc"), desc)))
        elif (eo["result"] == 1) != opt:
            V.append(("C12|optimalstatus|%s" % ("false-positive" if eo["result"] == 1 else "false-negative"), "optimalstatus answered %d for %s" % (eo["result"], desc)))
        if ed.get("rc") != 0:
            V.append(("C12|dualstatus|error", "QSexact_basis_dualstatus failed (rc %r) on non-singular %s" % (ed.get("rc"), desc)))
        else:
            if (ed["result"] == 1) != E["dfeas"]:
                V.append(("C12|dualstatus|%s" % ("false-positive" if ed["result"] == 1 else "false-negative"), "dualstatus answered %d for %s" % (ed["result"], desc)))
            elif ed["result"] == 1 and not check_dobj(m, parse(ed["dobjval"]), E["value"]):
                V.append(("C12|dualstatus|dobjval", "dobjval %s but the exact dual objective of %s" % (ed["dobjval"], desc)))
        if ev is not None and ev.get("rc") == 0:
            pre = t // 7 % 2
            C["verify:prestep%d" % pre] = C.get("verify:prestep%d" % pre, 0) + 1
            if pre == 0:
                # without prestep the function is the dual-feasibility test of the given basis
                if (ev["result"] == 1) != E["dfeas"]:
                    V.append(("C12|verify|%s" % ("false-positive" if ev["result"] == 1 else "false-negative"), "QSexact_verify(no prestep) answered %d for %s" % (ev["result"], desc)))
                elif ev["result"] == 1 and not check_dobj(m, parse(ev["dobjval"]), E["value"]):
                    V.append(("C12|verify|dobjval", "verify dobjval %s for %s" % (ev["dobjval"], desc)))
            else:
                # with prestep it first solves in doubles from the given basis and accepts an exactly verified optimum of the LP
                if ev["result"] == 0 and E["dfeas"]:
                    V.append(("C12|verify|false-negative", "QSexact_verify(prestep) answered 0 for dual feasible %s" % desc))
                elif ev["result"] == 1:
                    d = parse(ev["dobjval"])
                    ok = E["dfeas"] and check_dobj(m, d, E["value"])
                    if not ok:
                        from vlib import refsolve
                        tr = refsolve.solve(m)
                        ok = tr["status"] == "OPTIMAL" and check_dobj(m, d, tr["value"])
                    if not ok:
                        V.append(("C12|verify|prestep-unjustified", "QSexact_verify(prestep) answered 1 with dobjval %s for %s, which is neither its dual objective nor the LP optimum" % (ev["dobjval"], desc)))
        if len(V) > 5:
            break
    if len(V) <= 5 and len(tidy) == len(bases):
        for t, c2 in (case.meta or {}).get("sloppy", []):
            try:
                so, sd = next(it), next(it)
            except StopIteration:
                break
            eo, ed = tidy[t]
            C["sloppy-twins"] = C.get("sloppy-twins", 0) + 1
            if so.get("rc") == 0 and eo.get("rc") == 0 and so.get("result") != eo.get("result"):
                V.append(("C12|sloppy-status|optimalstatus-differs", "basis c=%s judged %r, the same basis with the column moved to its only finite bound (c=%s) judged %r" % (
                    c2, so.get("result"), bases[t][0], eo.get("result"))))
            if sd.get("rc") == 0 and ed.get("rc") == 0 and (sd.get("result"), sd.get("dobjval") if sd.get("result") == 1 else None) != (ed.get("result"), ed.get("dobjval") if ed.get("result") == 1 else None):
                V.append(("C12|sloppy-status|dualstatus-differs", "basis c=%s: dual verdict %r/%s, tidy basis c=%s: %r/%s" % (
                    c2, sd.get("result"), sd.get("dobjval"), bases[t][0], ed.get("result"), ed.get("dobjval"))))
    return V, C, n


def judge_ret(case, res, m):
    V, C = [], {}
    if res.crash:
        return [(run.crash_key("C12", res.crash), "process died in %s: %s\n%s" % (res.crash.get("op"), res.crash["kind"], res.crash["text"][:1500]))], {"crash": 1}, False
    if res.timeout:
        return [], {"watchdog_inconclusive": 1}, False
    solves = [e for e in res.events if e["op"] == "solve_exact"]
    judged = [e for e in solves if "basis" in e]
    db = res.ev("dump_basis")
    if len(judged) < 2 or db is None:
        raise run.HarnessError("unexpected event structure in %s" % case.id)
    first, warm = judged[-2], judged[-1]
    if first.get("rc") != 0 or first.get("status") != 1:
        return [], {"not-optimal": 1}, False
    ds = [e for e in res.events if e["op"] == "dumpsol"]
    val = parse(ds[-2]["objval"]) if ds[-2].get("objval_rc") == 0 else None
    B = db["basis"]
    cs, rs = B["cstat"] or "", B["rstat"] or ""
    if B["nstruct"] != m.ncols or B["nrows"] != m.nrows:
        return [("C12|returned|size", "basis returned with OPTIMAL has size %dx%d for a %dx%d problem" % (B["nstruct"], B["nrows"], m.ncols, m.nrows))], C, True
    nb = cs.count("1") + rs.count("1")
    if nb != m.nrows:
        V.append(("C12|returned|basic-count", "basis returned with OPTIMAL has %d basic entries for %d rows: c=%s r=%s" % (nb, m.nrows, cs, rs)))
        return V, C, True
    E = vbasis.evaluate(m, cs, rs)
    desc = "c=%s r=%s" % (cs, rs)
    if not E["valid"]:
        C["returned-type-inconsistent:" + E["reason"].split("(")[0].strip()] = 1
        return V, C, True
    if E.get("singular"):
        C["returned-singular"] = 1
        return V, C, True
    C["returned-nonsingular"] = 1
    if not (E["pfeas"] and E["dfeas"]):
        V.append(("C12|returned|not-optimal-exactly", "basis %s returned with OPTIMAL: exact basic solution primal feasible %s dual feasible %s" % (desc, E["pfeas"], E["dfeas"])))
    elif val is not None and E["value"] != val:
        V.append(("C12|returned|value", "basis %s has exact value %s, reported %s" % (desc, E["value"], val)))
    eo, ed = res.ev("basis_optimalstatus"), res.ev("basis_dualstatus")
    if eo.get("rc") != 0 or eo.get("result") != 1:
        V.append(("C12|returned|optimalstatus-denies", "QSexact_basis_optimalstatus rc=%r result=%r on the basis returned with OPTIMAL (%s)" % (eo.get("rc"), eo.get("result"), desc)))
    if ed.get("rc") != 0 or ed.get("result") != 1:
        V.append(("C12|returned|dualstatus-denies", "QSexact_basis_dualstatus rc=%r result=%r on the returned basis (%s)" % (ed.get("rc"), ed.get("result"), desc)))
    elif val is not None and not check_dobj(m, parse(ed["dobjval"]), val):
        V.append(("C12|returned|dobjval", "dobjval %s, optimal value %s" % (ed["dobjval"], val)))
    for e in res.evs("verify"):
        if e.get("rc") != 0 or e.get("result") != 1:
            V.append(("C12|returned|verify-denies", "QSexact_verify rc=%r result=%r on the returned basis (%s)" % (e.get("rc"), e.get("result"), desc)))
            break
    if warm.get("rc") != 0 or warm.get("status") != 1:
        V.append(("C12|returned|warm-start-status", "warm start from the returned basis: rc=%r status=%r" % (warm.get("rc"), warm.get("status"))))
    elif val is not None and ds[-1].get("objval_rc") == 0 and parse(ds[-1]["objval"]) != val:
        V.append(("C12|returned|warm-start-value", "warm start value %s != %s" % (ds[-1]["objval"], val)))
    return V, C, True


def chunk(payload):
    tier, seed, kind, start, count, bindir = (payload[k] for k in ("tier", "seed", "kind", "start", "count", "bindir"))
    wd = run.workdir("C12-%s-%d" % (kind, start))
    part = dict(evaluations=0, distinct=[], counters={}, violations=[], inconclusive=[], samples=[])
    cnt = part["counters"]
    try:
        for k in range(start, start + count):
            if kind == "enum":
                c, m, bases = gen_enum_case(tier, seed, k)
            elif kind == "degenwarm":
                c, m = gen_degenwarm_case(tier, seed, k)
            else:
                c, m = gen_ret_case(tier, seed, k)
            res = run.run_cases(os.path.join(bindir, "qsdrive"), [c], os.path.join(wd, "c%d" % k), batch=1, timeout=600)
            if kind == "enum":
                V, C, n = judge_enum(c, res[c.id], m, bases)
                part["evaluations"] += len(bases)
                for t, b in enumerate(bases[:n] if n else []):
                    pass
                part["distinct"] += [run.h(m.key(), b) for b in bases]
                cnt["lps"] = cnt.get("lps", 0) + 1
                if c.meta["full"]:
                    cnt["lps-with-complete-basis-enumeration"] = cnt.get("lps-with-complete-basis-enumeration", 0) + 1
            else:
                V, C, nontriv = (judge_degenwarm if kind == "degenwarm" else judge_ret)(c, res[c.id], m)
                part["evaluations"] += 1
                if nontriv:
                    part["distinct"].append(run.h(c.script))
            cnt["kind:" + kind] = cnt.get("kind:" + kind, 0) + 1
            for a, b in C.items():
                cnt[a] = cnt.get(a, 0) + b
            if "watchdog_inconclusive" in C:
                part["inconclusive"].append("watchdog: %s" % c.id)
            for key, what in V:
                c.meta.update(k=k, tier=tier, seed=seed)
                part["violations"].append(dict(key=key, what=what, replay=run.save_replay("C12", c, what)))
            if not part["samples"]:
                part["samples"].append(dict(case=c.id, script=c.script[:14]))
    finally:
        run.cleanup(wd)
    return part


RULE = ("enum: small LPs (<=3 rows x 4 cols, all senses/bound shapes) x every basic set x every type-consistent nonbasic assignment (complete enumeration unless capped); "
        "each non-singular basis (exact rank in Fractions) is evaluated exactly and QSexact_basis_optimalstatus / _dualstatus (+dobjval) / QSexact_verify must answer "
        "accordingly; sloppy twins: a nonbasic status naming a bound the column does not have must get the verdicts of the basis with the column on its only finite bound (or be refused); ret: bases returned by QSexact_solver under random configurations must have nrows basics and, if non-singular, be exactly optimal with the reported "
        "value, be confirmed by the three verdict functions and by a warm start on a fresh object; degenwarm: solve, move costs by 2^-30..2^-100, re-solve from the old optimal basis: the basis returned with OPTIMAL must be confirmed by both verdict functions with the reported value; non-trivial/distinct = (LP, basis) pairs resp. scripts")


def run_check(prop, tier, seed):
    b = run.builds(["asan"])
    rep = run.Report(prop, tier, seed, RULE)
    q = tier == "quick"
    payloads = []
    for kind, n, step in (("enum", 64 if q else 900, 2), ("ret", 320 if q else 8000, 10), ("degenwarm", 160 if q else 8000, 10)):
        for s in range(0, n, step):
            payloads.append(dict(tier=tier, seed=seed, kind=kind, start=s, count=min(step, n - s), bindir=b["asan"]))
    for part in run.pool_map("checks.c12", "chunk", payloads):
        rep.merge(part)
    return rep.finish(floor=500)


def replay(prop, path):
    b = run.builds(["asan"])
    case, d = run.load_replay(path)
    meta = d.get("meta", {})
    k, tier, seed = meta.get("k"), meta.get("tier", "quick"), meta.get("seed", 1)
    wd = run.workdir("replayC12")
    try:
        if meta.get("kind") == "degenwarm":
            c, m = gen_degenwarm_case(tier, seed, k)
            res = run.run_cases(os.path.join(b["asan"], "qsdrive"), [c], wd, batch=1, timeout=600)
            V, C, _ = judge_degenwarm(c, res[c.id], m)
        elif meta.get("kind") == "enum":
            c, m, bases = gen_enum_case(tier, seed, k)
            res = run.run_cases(os.path.join(b["asan"], "qsdrive"), [c], wd, batch=1, timeout=600)
            V, C, _ = judge_enum(c, res[c.id], m, bases)
        else:
            c, m = gen_ret_case(tier, seed, k)
            res = run.run_cases(os.path.join(b["asan"], "qsdrive"), [c], wd, batch=1, timeout=600)
            V, C, _ = judge_ret(c, res[c.id], m)
    finally:
        run.cleanup(wd)
    for key, what in V:
        print("VIOLATION property=C12 replay=%s\n  key: %s\n  what: %s" % (path, key, what[:1500]))
    if not V:
        print("replay: no violation reproduced")
    return 1 if V else 0
