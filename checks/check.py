#!/usr/bin/env python3
"""check.py <Cnn> --tier quick|thorough [--replay path]
exit 0: held on everything explored; 1: VIOLATION line printed; 2: inconclusive / harness failure."""
import argparse, os, sys, traceback
sys.path.insert(0, os.path.dirname(os.path.dirname(os.path.abspath(__file__))))
os.chdir(os.path.dirname(os.path.dirname(os.path.abspath(__file__))))

MODULES = {
    "C01": "checks.solvefam", "C02": "checks.solvefam", "C03": "checks.solvefam",
    "C04": "checks.c04", "C05": "checks.hist", "C06": "checks.hist", "C07": "checks.c07",
    "C08": "checks.iofam", "C09": "checks.iofam", "C10": "checks.iofam", "C11": "checks.c11",
    "C12": "checks.c12", "C13": "checks.c13", "C14": "checks.c14", "C15": "checks.c15", "C16": "checks.c16",
    "C17": "checks.c17", "C18": "checks.c18", "C19": "checks.c19", "C20": "checks.c20",
}


def main():
    ap = argparse.ArgumentParser()
    ap.add_argument("prop")
    ap.add_argument("--tier", default=os.environ.get("VERIF_TIER", "quick"), choices=["quick", "thorough"])
    ap.add_argument("--replay")
    a = ap.parse_args()
    seed = int(os.environ.get("VERIF_SEED", "1"))
    from vlib import run
    try:
        mod = __import__(MODULES[a.prop], fromlist=["x"])
        if a.replay:
            rc = mod.replay(a.prop, a.replay)
        else:
            rc = mod.run_check(a.prop, a.tier, seed)
    except run.HarnessError as e:
        print("HARNESS FAILURE: %s" % str(e)[:3000])
        rc = 2
    except Exception:
        traceback.print_exc()
        print("HARNESS FAILURE (exception)")
        rc = 2
    sys.exit(rc)


if __name__ == "__main__":
    main()
