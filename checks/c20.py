"""C20: with a log handler installed nothing reaches stdout/stderr.  Also provides the shared failure-path workload
(`workload`) that C18 runs under LeakSanitizer."""
import os, sys
sys.path.insert(0, os.path.dirname(os.path.dirname(os.path.abspath(__file__))))
from vlib import run, gen_lp, model, iofmt, mutate, script as vscript
from checks import solvefam as sf, hist, c07, iofam, c14, c16

STREAMS = ["solve", "hist", "probe", "file-valid", "file-mutant", "basis-mutant", "missing", "basis", "copy", "verdict"]


def basis_text(rnd):
    """a basis file for the fixed C07 base problem (x y z w / c1 c2 c3)"""
    L = ["NAME  c07"]
    pool = [" XL x c1", " XU y c3", " XL z c2", " UL w", " LL x", " UL z", " XU w c3", " LL y"]
    rnd.shuffle(pool)
    L += pool[:rnd.randint(0, 5)]
    L.append("ENDATA")
    return "\n".join(L) + "\n"


def workload(prop, tier, seed, stream, k):
    """-> Case whose script exercises many reporting / early-exit sites"""
    rnd = run.rng(prop, tier, seed, stream, k)
    cid = "%s-%s-%d" % (prop, stream, k)
    files = {}
    if stream == "solve":
        c, m, cfg = sf.gen_case("C01", tier, seed + 1000, rnd.choice(["small-rand", "degenerate", "thin", "planted-inf", "tiny", "illcond", "knife"]), k)
        L = [ln if not ln.startswith("set_param p0 4 ") and not ln.startswith("set_param p1 4 ") else ln[:15] + str(rnd.choice([0, 1, 2, 3])) for ln in c.script]
    elif stream == "hist":
        if k % 6 == 5:
            c = hist.gen_c06(tier, seed + 1000, "matgrow" if k % 12 == 5 else "namechurn", k)
        else:
            c = hist.gen_c05(tier, seed + 1000, ("rand", "warm", "basisload", "pattern")[k % 4], k)
        L = c.script
        if rnd.random() < 0.5:
            L = [L[0]] + ["set_param p0 4 %d" % rnd.choice([1, 2, 3])] + L[1:] if L[0].startswith(("create", "load")) else L
    elif stream == "oddparam":
        # legal but extreme parameter values, then every kind of solve: whatever the answer, no crash
        c, m, cfg = sf.gen_case("C01", tier, seed + 1000, rnd.choice(["small-rand", "planted-opt", "tiny"]), k)
        L = list(c.script)
        i = next((t for t, ln in enumerate(L) if ln.startswith(("solve_exact", "opt_primal", "opt_dual"))), len(L))
        odd = rnd.choice(["set_param_num p0 6 1/%d" % (2 ** rnd.choice([1100, 2000])), "set_param_num p0 6 %d" % (10 ** rnd.choice([30, 200])),
                          "set_param p0 5 1", "set_param p0 5 2999", "set_param_num p0 8 -%d" % (10 ** 140), "set_param_num p0 9 %d" % (10 ** 140),
                          "set_param_num p0 8 1/%d" % (2 ** 1100), "set_param p0 4 3"])
        if k % 3 == 0:
            # a progress reporter of the caller with a short interval, on solves that iterate on the problem itself (no scaled copy)
            odd = "set_reporter p0 %d" % rnd.choice([1, 2, 5, 9, 10, 11, 25])
            L = [ln for ln in L if not ln.startswith("set_param p0 7 ")]
            i = next((t for t, ln in enumerate(L) if ln.startswith(("solve_exact", "opt_primal", "opt_dual"))), len(L))
            L = L[:i] + ["set_param p0 7 0", "set_param p0 4 %d" % rnd.choice([0, 1])] + L[i:]
            i += 2
            if i < len(L):
                L[i] = rnd.choice(["opt_primal p0", "opt_dual p0"])
            L = L[:i] + [odd] + L[i:] + ["opt_primal p0", "opt_dual p0", "solve_exact p0 dual - xy"]
        else:
            L = L[:i] + [odd] + L[i:] + ["opt_dual p0", "solve_exact p0 dual - xy", "copy_dbl p0", "copy_mpf p0 128"]
    elif stream == "probe":
        allc = c07.gen_cases(tier)
        c = allc[rnd.randrange(len(allc))]
        L = c.script
    elif stream in ("file-valid", "file-mutant"):
        m = iofam.io_model(rnd, "plain")
        fmt = rnd.choice(["LP", "MPS"])
        text, _ = (iofmt.lp_text if fmt == "LP" else iofmt.mps_text)(m, rnd)
        if stream == "file-mutant":
            text = mutate.semantic_error(text, fmt, rnd) if k % 4 == 1 else mutate.mutate(text, rnd)
        fn = "in%d.%s" % (k, fmt.lower())
        files[fn] = mutate.to_bytes(text)
        via = rnd.choice(["read_prob p0 @W@/%s %s" % (fn, fmt), "get_prob p0 @W@/%s %s 0" % (fn, fmt), "get_prob p0 @W@/%s %s 1" % (fn, fmt),
                          "read_prob p0 @W@/%s %s" % (fn, "MPS" if fmt == "LP" else "LP")])
        L = [via, "dump p0", "set_param p0 5 50", "set_param p0 4 %d" % rnd.choice([0, 1, 2]), rnd.choice(["solve_exact p0 dual - xy", "opt_primal p0", "opt_dual p0"]),
             "write_prob p0 @W@/out%d.lp LP" % k, "write_prob p0 @W@/out%d.mps MPS" % k, "free p0"]
    elif stream == "basis-mutant":
        setup, R, C = c07.setup("loaded")
        text = basis_text(rnd)
        if rnd.random() < 0.8:
            text = mutate.mutate(text, rnd)
        fn = "b%d.bas" % k
        files[fn] = mutate.to_bytes(text)
        L = setup + [rnd.choice(["read_basis p0 @W@/%s b0" % fn, "read_and_load_basis p0 @W@/%s" % fn]), "opt_dual p0", "dumpsol p0"]
    elif stream == "missing":
        setup, R, C = c07.setup(rnd.choice(["loaded", "solved-dual", "empty"]))
        L = setup + rnd.sample(["read_prob p1 @W@/nope.lp LP", "read_prob p1 @W@/nope.mps MPS", "read_prob p1 @W@/nope.lp.gz LP", "read_prob p1 @W@/nope.mps.bz2 MPS",
                                "read_basis p0 @W@/nope.bas b1", "read_and_load_basis p0 @W@/nope.bas", "write_prob p0 @W@/nodir/x.lp LP", "write_prob p0 @W@/nodir/x.mps.gz MPS",
                                "write_basis p0 - @W@/nodir/x.bas", "read_prob p1 @W@ LP", "write_prob p0 @W@/x.foo FOO", "get_basis p0 b2", "dumpsol p0 1",
                                "tableau p0", "get_infeas p0", "write_basis p0 - @W@/own.bas", "verify p0 b0 1",
                                # a file that opens but cannot take the data (write or close fails)
                                "write_prob p0 /dev/full LP", "write_prob p0 /dev/full MPS", "write_prob_file p0 /dev/full LP", "write_basis p0 - /dev/full"], 7)
        L = [x for x in L if not (x.startswith("verify") and "solved" not in " ".join(setup))]
    elif stream == "verdict":
        m = gen_lp.family(rnd, rnd.choice(["small-rand", "planted-opt", "degenerate", "planted-inf", "thin"]))
        L = model.script_build(m, "p0") + ["set_param p0 5 3000", "set_param p0 4 %d" % rnd.choice([0, 1]), "solve_exact p0 %s b0 xy" % rnd.choice(["dual", "primal"]),
                                           "dumpsol p0", "basis_optimalstatus p0 b0", "basis_dualstatus p0 b0", "verify p0 b0 %d %d" % (rnd.randint(0, 1), rnd.randint(0, 1)),
                                           "verify p0 b0 %d %d" % (rnd.randint(0, 1), rnd.randint(0, 1)), "get_infeas p0", "tableau p0", "opt_dual p0", "tableau p0", "pivotin_row p0 1 0", "tableau p0"]
        if m.nrows:
            cs, rs = sf.random_basis(rnd, m)
            L += ["make_basis b1 %d %d %s %s" % (m.ncols, m.nrows, cs, rs), "basis_optimalstatus p0 b1", "basis_dualstatus p0 b1", "verify p0 b1 1 0"]
    elif stream == "basis":
        c, m = c14.gen_case(tier, seed + 1000, k)
        L = c.script
    else:
        c = c16.gen_copy_case(tier, seed + 1000, k)
        L = c.script
    L = [x for x in L if not x.startswith("verify p0 b0") or any(y.startswith("solve_exact p0 dual b0") for y in L)]
    return run.Case(cid, ["capture @W@/cap1.%s @W@/cap2.%s" % (cid, cid)] + list(L), dict(stream=stream), files)


def judge(case, res):
    V, C = [], {}
    if res.crash:
        # memory errors belong to C17/C11; here only record that the case is unusable
        return [], {"crashed-case(ignored here)": 1}, False
    if res.timeout:
        return [], {"watchdog_inconclusive": 1}, False
    n = 0
    for ev in res.events:
        n += 1
        if ev.get("logn"):
            C["handler-messages"] = C.get("handler-messages", 0) + ev["logn"]
            C["calls-with-messages"] = C.get("calls-with-messages", 0) + 1
        if ev.get("lognull"):
            V.append(("C20|%s|null-message" % ev["op"], "handler received a NULL message during %s" % ev["op"]))
        for fd in ("fd1", "fd2"):
            if ev.get(fd):
                txt = ""
                try:
                    p = os.path.join(res.wd, ("cap1." if fd == "fd1" else "cap2.") + case.id)
                    txt = open(p, "rb").read()[:400].decode("latin-1")
                except OSError:
                    pass
                V.append(("C20|%s|%s" % (ev["op"], "stdout" if fd == "fd1" else "stderr"),
                          "%d bytes written to %s during `%s` (rc=%r) although a log handler is installed: %r" % (ev[fd], "stdout" if fd == "fd1" else "stderr", ev["op"], ev.get("rc"), txt)))
    C["calls"] = n
    return V, C, n > 0


def chunk(payload):
    tier, seed, stream, start, count, bindir = (payload[k] for k in ("tier", "seed", "stream", "start", "count", "bindir"))
    wd = run.workdir("C20-%s-%d" % (stream, start))
    part = dict(evaluations=0, distinct=[], counters={}, violations=[], inconclusive=[], samples=[])
    cnt = part["counters"]
    try:
        cases = [workload("C20", tier, seed, stream, k) for k in range(start, start + count)]
        res = run.run_cases(os.path.join(bindir, "qsdrive"), cases, wd, batch=1 if stream == "probe" else 12, timeout=300)
        fmts = set()
        for c in cases:
            r = res[c.id]
            V, C, nontriv = judge(c, r)
            part["evaluations"] += 1
            cnt["stream:" + stream] = cnt.get("stream:" + stream, 0) + 1
            for a, b in C.items():
                cnt[a] = cnt.get(a, 0) + b
            if nontriv:
                part["distinct"].append(run.h(c.script, sorted(c.files.items())))
            if "watchdog_inconclusive" in C:
                part["inconclusive"].append("watchdog: %s" % c.id)
            for ev in r.events:
                for msg in ev.get("logs", []):
                    import re
                    fmts.add(re.sub(r"[-\d./]+", "N", msg)[:40])
            for key, what in V:
                part["violations"].append(dict(key=key, what=what, replay=run.save_replay("C20", c, what)))
            if not part["samples"] and nontriv:
                part["samples"].append(dict(case=c.id, script=c.script[:12]))
        part["fmts"] = sorted(fmts)[:400]
    finally:
        run.cleanup(wd)
    return part


RULE = ("scripts of the other checks (solves at display levels 0-3, edit/solve histories, the C07 invalid-argument probes, valid and mutated LP/MPS/basis files "
        "through QSread_prob/QSget_prob/QSread_basis, missing and unwritable files, basis round trips, copies) executed with a log handler installed before the "
        "first library call and fd 1/2 redirected to capture files whose size is sampled after every call; non-trivial = case with >=1 library call; distinct = hash(script, files)")


def run_check(prop, tier, seed):
    b = run.builds(["asan"])
    rep = run.Report(prop, tier, seed, RULE)
    q = tier == "quick"
    plan = [("solve", 400 if q else 8000), ("hist", 120 if q else 3000), ("probe", 600 if q else 2885), ("file-valid", 300 if q else 6000), ("file-mutant", 1500 if q else 40000),
            ("basis-mutant", 500 if q else 10000), ("missing", 200 if q else 2000), ("basis", 200 if q else 4000), ("copy", 60 if q else 2000), ("verdict", 150 if q else 4000)]
    payloads = []
    for stream, n in plan:
        step = 12 if stream in ("hist", "copy", "solve", "verdict") else 40
        for s in range(0, n, step):
            payloads.append(dict(tier=tier, seed=seed, stream=stream, start=s, count=min(step, n - s), bindir=b["asan"]))
    fm = set()
    for part in run.pool_map("checks.c20", "chunk", payloads):
        fm.update(part.get("fmts", []))
        rep.merge(part)
    rep.extra["distinct_message_formats_received_by_handler"] = len(fm)
    return rep.finish(floor=500)


def replay(prop, path):
    b = run.builds(["asan"])
    case, d = run.load_replay(path)
    wd = run.workdir("replayC20")
    try:
        res = run.run_cases(os.path.join(b["asan"], "qsdrive"), [case], wd, batch=1)
        V, C, _ = judge(case, res[case.id])
    finally:
        run.cleanup(wd)
    for key, what in V:
        print("VIOLATION property=C20 replay=%s\n  key: %s\n  what: %s" % (path, key, what[:1500]))
    if not V:
        print("replay: no violation reproduced")
    return 1 if V else 0
