"""C01-C04: solve-family checks.  Cases = (LP, configuration); judged offline from the event log with exact oracles."""
import os, sys, json
from fractions import Fraction
sys.path.insert(0, os.path.dirname(os.path.dirname(os.path.abspath(__file__))))
from vlib import run, gen_lp, refsolve, cert, model, script as vscript
from vlib.rat import parse, parse_list, INF, NINF, isinf
from vlib.model import MIN, MAX

ST = {1: "OPTIMAL", 2: "INFEASIBLE", 3: "UNBOUNDED", 4: "ITER_LIMIT", 5: "TIME_LIMIT", 6: "UNSOLVED", 7: "ABORTED", 8: "NUMERR",
      9: "OBJ_LIMIT", 100: "MODIFIED"}
PP = [1, 2, 3, 4]
DP = [6, 7, 8, 9]
PRECS = [64, 128, 256, 512, 1024]


def rnd_config(rnd, entries=("exact-primal", "exact-dual", "opt_primal", "opt_dual"), limits=True, bases=True):
    c = dict(entry=rnd.choice(entries), pp=rnd.choice(PP), dp=rnd.choice(DP), scaling=rnd.choice([0, 1]),
             display=rnd.choice([0, 0, 0, 1]), prec=rnd.choice(PRECS), maxit=None, basis="none")
    if limits and rnd.random() < 0.06:
        c["maxit"] = rnd.choice([1, 3, 10])
    if bases and rnd.random() < 0.3:
        c["basis"] = rnd.choice(["optimal", "random", "otherobj"])
        if rnd.random() < 0.4:
            c["display"] = 1       # the exact driver's diagnostics about a rejected start basis are part of what runs
    return c


def default_config(entry):
    return dict(entry=entry, pp=3, dp=7, scaling=1, display=0, prec=128, maxit=None, basis="none")


def cfg_key(c):
    return (c["entry"], c["pp"], c["dp"], c["scaling"], c["display"], c["prec"], c["maxit"], c["basis"])


def param_lines(c, slot):
    out = ["set_param %s 0 %d" % (slot, c["pp"]), "set_param %s 2 %d" % (slot, c["dp"]),
           "set_param %s 7 %d" % (slot, c["scaling"]), "set_param %s 4 %d" % (slot, c["display"])]
    if c["maxit"] is not None:
        out.append("set_param %s 5 %d" % (slot, c["maxit"]))
    elif not c["entry"].startswith("exact"):
        # the pure rational simplex has no anti-cycling tolerance: bound the run (a limit stop is non-definitive
        # and never compared); the default of 500000 iterations only costs time
        out.append("set_param %s 5 %d" % (slot, c.get("ratlimit", 3000)))
    return out


def solve_line(c, slot, bslot="-", flags="xy"):
    e = c["entry"]
    if e == "exact-primal":
        return "solve_exact %s primal %s %s" % (slot, bslot, flags)
    if e == "exact-dual":
        return "solve_exact %s dual %s %s" % (slot, bslot, flags)
    return "%s %s" % (e, slot)


def random_basis(rnd, m):
    """type-consistent random basis with exactly nrows basic entries (possibly singular)"""
    n, r = m.ncols, m.nrows
    basic = set(rnd.sample(range(n + r), r))
    cs = []
    for j, c in enumerate(m.cols):
        if j in basic:
            cs.append("1")
        elif isinf(c.lo) and isinf(c.up):
            cs.append("3")
        elif isinf(c.lo):
            cs.append("2")
        elif isinf(c.up):
            cs.append("0")
        else:
            cs.append(rnd.choice("02"))
    rs = []
    for i, row in enumerate(m.rows):
        if n + i in basic:
            rs.append("1")
        elif row.sense == "R":
            rs.append(rnd.choice("02"))
        else:
            rs.append("0")
    return "".join(cs) or "-", "".join(rs) or "-"


def case_script(rnd, m, c, returns_basis=False):
    """script lines for one (LP, config); the judged solve is the LAST solve command of the script"""
    L = []
    bmode = c["basis"]
    if bmode in ("none",) or m.nrows == 0:
        L += model.script_any(m, "p0", rnd)
        L += param_lines(c, "p0")
        L.append("set_precision %d" % c["prec"])
        L.append(solve_line(c, "p0", "b0" if c["entry"].startswith("exact") else "-"))
        L.append("dumpsol p0 1")
        return L, "p0"
    # a first object produces a basis
    L += model.script_any(m, "p1", rnd)
    if bmode == "otherobj":
        for j in range(m.ncols):
            if rnd.random() < 0.6:
                L.append("change_objcoef p1 %d %s" % (j, rnd.randint(-5, 5)))
    if bmode in ("optimal", "otherobj"):
        L.append("solve_exact p1 dual b0 -")
    else:
        cs, rs = random_basis(rnd, m)
        L.append("make_basis b0 %d %d %s %s" % (m.ncols, m.nrows, cs, rs))
    L.append("free p1")
    L += model.script_any(m, "p0", rnd)
    L += param_lines(c, "p0")
    L.append("set_precision %d" % c["prec"])
    if c["entry"].startswith("exact") and not returns_basis and rnd.random() < 0.4:
        # the basis is already in the problem (QSload_basis) instead of being handed to the exact driver
        L.append("load_basis p0 b0")
        L.append(solve_line(c, "p0", "-"))
    elif c["entry"].startswith("exact"):
        L.append(solve_line(c, "p0", "b0"))
    else:
        L.append("load_basis p0 b0")
        L.append(solve_line(c, "p0"))
    L.append("dumpsol p0 1")
    return L, "p0"


# ------------------------------------------------------------------ judging
def truth_of(m, limit=(16, 22)):
    """certified truth or None"""
    t = getattr(m, "truth", None)
    if m.nrows <= limit[0] and m.ncols <= limit[1]:
        r = refsolve.solve(m)
        if r["status"] in ("OPTIMAL", "INFEASIBLE", "UNBOUNDED"):
            if t and t["status"] != r["status"]:
                raise run.HarnessError("planted truth %s disagrees with certified reference %s" % (t, r["status"]))
            return r
        if r["status"] == "UNCERTIFIED":
            return dict(status="UNCERTIFIED", why=r.get("why"))
        return None
    return t


def h1_path(ev):
    """summarise hook events of a solve_exact record"""
    acc = None
    levels = 0
    for w, a, b in ev.get("hk", []):
        if w.startswith("exact.level"):
            levels += 1
        if w.startswith("exact.accept"):
            acc = "%s@%s" % (w[len("exact.accept."):], "dbl" if a == 53 else "mpf%d" % a)
        if w == "exact.giveup":
            acc = "giveup"
    return acc or "none", levels


def judge_solution(m, ev_solve, ev_sol, cmd):
    """C01 clauses for one OPTIMAL result.  returns list of (clause, text)"""
    bad = []
    nc, nr = m.ncols, m.nrows
    acc = {}
    if ev_sol is None or ev_sol.get("rc") != 0:
        return [("accessors", "dumpsol missing")]
    if ev_sol.get("status") != 1:
        bad.append(("get_status", "get_status=%r after OPTIMAL solve" % ev_sol.get("status")))
    for k in ("objval", "x", "pi", "slack", "rcv", "sol"):
        if ev_sol.get(k + "_rc") != 0:
            bad.append(("accessor-" + k, "%s accessor failed rc=%r after OPTIMAL" % (k, ev_sol.get(k + "_rc"))))
    if bad:
        return bad
    val = parse(ev_sol["objval"])
    x, pi, sl, rc = (parse_list(ev_sol[k]) for k in ("x", "pi", "slack", "rcv"))
    for t in cert.check_optimal(m, val, x, pi, rc, sl):
        bad.append(("accessor-cert:" + t.split(":")[0].split("[")[0].split(" ")[0], "accessors: " + t))
    # get_solution agrees with the single accessors
    if parse(ev_sol["sol_val"]) != val or parse_list(ev_sol["sol_x"]) != x or parse_list(ev_sol["sol_pi"]) != pi or \
            parse_list(ev_sol["sol_slack"]) != sl or parse_list(ev_sol["sol_rcv"]) != rc:
        bad.append(("get_solution", "get_solution disagrees with individual accessors"))
    for key, ref in (("named_x", x), ("named_rc", rc), ("named_pi", pi), ("named_slack", sl)):
        if key in ev_sol:
            for t, (r, v) in enumerate(ev_sol[key]):
                if r != 0 or parse(v) != ref[t]:
                    bad.append((key, "%s[%d] = (%r,%r) != %s" % (key, t, r, v, ref[t])))
                    break
    if cmd == "solve_exact":
        if "x" in ev_solve:
            xo = parse_list(ev_solve["x"])
            if len(xo) != nc + nr:
                bad.append(("xout-len", "x out-parameter has %d entries" % len(xo)))
            else:
                for t in cert.check_optimal(m, None, xo[:nc], parse_list(ev_solve["y"]) if "y" in ev_solve else pi):
                    bad.append(("out-cert:" + t.split(":")[0].split("[")[0].split(" ")[0], "out-parameters: " + t))
                if xo[:nc] != x:
                    bad.append(("xout-vs-accessor", "x out-parameter differs from get_x_array"))
                es = cert.expected_slack(m, xo[:nc])
                if xo[nc:] != es:
                    bad.append(("xout-logicals", "logical part of x out-parameter %s != slack %s" % (xo[nc:], es)))
        if "y" in ev_solve and parse_list(ev_solve["y"]) != pi:
            bad.append(("yout-vs-accessor", "y out-parameter differs from get_pi_array"))
    return bad


def find_last_solve(script, events):
    last = None
    try:
        for ln, cmd, slot, op, ev, models in vscript.walk(script, events):
            if cmd in ("solve_exact", "opt_primal", "opt_dual"):
                last = dict(cmd=cmd, slot=slot, ev=ev, model=models.get(slot).clone() if models.get(slot) else None, sol=None)
            elif cmd == "dumpsol" and last is not None and slot == last["slot"]:
                last["sol"] = ev
    except ValueError as e:
        raise run.HarnessError(str(e))
    return last


def judge_case(prop, case, res, m, cfg, truth):
    """-> (violations[list of (key, what)], counters dict, nontrivial bool)"""
    V = []
    C = {}
    if res.crash:
        V.append((run.crash_key(prop, res.crash), "process died in %s: %s\n%s" % (res.crash.get("op"), res.crash["kind"], res.crash["text"][:1500])))
        return V, {"crash": 1}, False
    if res.timeout:
        if prop == "C03":
            V.append(("%s|hang|%s" % (prop, cfg["entry"]), "solver did not terminate within the watchdog (op %s)" % res.begun))
            return V, {"hang": 1}, False
        return V, {"watchdog_inconclusive": 1}, False
    last = find_last_solve(case.script, res.events)
    if last is None:
        raise run.HarnessError("no solve event in case %s" % case.id)
    ev = last["ev"]
    rc, st = ev.get("rc"), ev.get("status")
    C["entry:" + cfg["entry"]] = 1
    C["status:" + ST.get(st, str(st))] = 1
    C["rc!=0" if rc else "rc=0"] = 1
    if last["cmd"] == "solve_exact":
        p, lv = h1_path(ev)
        C["h1:" + p] = 1
        if lv > 1:
            C["h1:needed_mpf_levels"] = 1
    nontrivial = False
    limited = cfg["maxit"] is not None
    if prop == "C01":
        if rc == 0 and st == 1:
            nontrivial = True
            for clause, text in judge_solution(m, ev, last["sol"], last["cmd"]):
                V.append(("C01|%s|%s" % (cfg["entry"], clause), text))
            if truth and truth["status"] in ("INFEASIBLE", "UNBOUNDED"):
                V.append(("C01|%s|optimal-on-%s" % (cfg["entry"], truth["status"]), "OPTIMAL reported, certified truth is %s" % truth["status"]))
    elif prop == "C02":
        if rc == 0 and st == 2:
            nontrivial = True
            if last["cmd"] == "solve_exact" and "y" in ev:
                for t in cert.check_farkas(m, parse_list(ev["y"])):
                    V.append(("C02|%s|farkas" % cfg["entry"], t + " y=%s" % ev["y"]))
            # `knife-far` LPs are feasible only at points beyond 1e150, the library's infinity: inside the library's number range they
            # are infeasible, so only the certificate clause above applies to them
            if truth and truth["status"] in ("OPTIMAL", "UNBOUNDED") and not (getattr(m, "far", False) or (case.meta or {}).get("stream") == "knife-far"):
                V.append(("C02|%s|infeasible-on-feasible" % cfg["entry"], "INFEASIBLE reported but the LP has a feasible point (truth %s)" % truth["status"]))
        elif truth and truth["status"] == "INFEASIBLE":
            C["infeasible-truth-other-status"] = 1
    elif prop == "C03":
        nontrivial = True
        if truth is None or truth["status"] == "UNCERTIFIED":
            return V, dict(C, **{"reference-uncertified": 1}), False
        if rc != 0:
            V.append(("C03|%s|error-return" % cfg["entry"], "solver returned rc=%r (status %r), truth %s" % (rc, st, truth["status"])))
        elif ST.get(st) != truth["status"]:
            V.append(("C03|%s|status:%s-truth:%s" % (cfg["entry"], ST.get(st, st), truth["status"]), "status %s, certified truth %s" % (ST.get(st, st), truth["status"])))
        elif st == 1:
            sol = last["sol"]
            if sol is None or sol.get("objval_rc") != 0:
                V.append(("C03|%s|objval-unavailable" % cfg["entry"], "no objective value after OPTIMAL"))
            elif "value" not in truth:
                C["truth-status-only(cover LP)"] = 1
            elif parse(sol["objval"]) != truth["value"]:
                V.append(("C03|%s|value" % cfg["entry"], "objective %s != true optimum %s" % (sol["objval"], truth["value"])))
    return V, C, nontrivial


# ------------------------------------------------------------------ chunks
FAMILIES = {
    "C01": ["small-rand", "small-int", "degenerate", "illcond", "thin", "planted-opt", "planted-opt", "tiny", "medium"],
    "C02": ["planted-inf", "planted-inf", "thin", "small-rand", "small-int", "degenerate", "tiny", "illcond", "planted-opt"],
    "C03": ["small-rand", "small-int", "degenerate", "illcond", "thin", "planted-opt", "planted-inf", "planted-unb", "tiny"],
}


def gen_case(prop, tier, seed, stream, k):
    rnd = run.rng(prop, tier, seed, stream, k)
    fam = stream
    if fam == "tiny-exh":
        m = gen_lp.tiny_from_index(k)
    else:
        m = gen_lp.family(rnd, fam)
        if fam == "medium" and prop != "C01":
            m = gen_lp.family(rnd, "planted-opt")
    if prop == "C03":
        cfg = default_config(rnd.choice(["exact-primal", "exact-dual"]))
    elif prop == "C02":
        cfg = rnd_config(rnd, limits=False)
        if rnd.random() < 0.7:
            cfg["entry"] = rnd.choice(["exact-primal", "exact-dual"])
    else:
        cfg = rnd_config(rnd)
        if stream == "medium":
            cfg["entry"] = rnd.choice(["exact-primal", "exact-dual", "exact-dual", "opt_dual"])
            cfg["maxit"] = None
        if stream in ("knife", "knife-x", "boxed") and rnd.random() < 0.5:
            cfg["display"] = 1          # the diagnostics of rejected candidate bases are part of what runs (and has crashed before)
        if stream in ("knife", "knife-x") and rnd.random() < 0.6:
            cfg["entry"] = rnd.choice(["exact-primal", "exact-dual"])
            cfg["maxit"] = None
        if stream == "flips":
            # bound flips happen in the long-step ratio test of the rational dual simplex; scaling (a first solve on a scaled copy,
            # then a restart that recomputes the basic solution) repairs some of what goes wrong there, so it is mostly off
            cfg["entry"] = "opt_dual" if rnd.random() < 0.8 else rnd.choice(["opt_primal", "exact-dual"])
            cfg["scaling"] = 0 if rnd.random() < 0.75 else 1
            cfg["maxit"] = None
            cfg["basis"] = "none"
        if stream == "big":
            cfg["entry"] = rnd.choice(["exact-primal", "exact-primal", "exact-dual", "exact-dual", "opt_primal", "opt_dual"])
            cfg["maxit"] = None
    lines, slot = case_script(rnd, m, cfg)
    cid = "%s-%s-%d" % (prop, stream, k)
    return run.Case(cid, lines, dict(stream=stream, k=k, cfg=cfg)), m, cfg


def chunk(payload):
    prop, tier, seed, stream, start, count, bindir = (payload[k] for k in ("prop", "tier", "seed", "stream", "start", "count", "bindir"))
    wd = run.workdir("%s-%s-%d" % (prop, stream, start))
    part = dict(evaluations=0, distinct=[], counters={}, violations=[], inconclusive=[], samples=[])
    cnt = part["counters"]
    try:
        cases = []
        info = {}
        for k in range(start, start + count):
            c, m, cfg = gen_case(prop, tier, seed, stream, k)
            cases.append(c)
            info[c.id] = (m, cfg)
        big = stream in ("medium", "big")
        res = run.run_cases(os.path.join(bindir, "qsdrive"), cases, wd, batch=payload.get("batch", 25), timeout=600 if big else 240)
        for c in cases:
            m, cfg = info[c.id]
            r = res[c.id]
            truth = truth_of(m) if not (r.crash or r.timeout) else None
            V, C, nontriv = judge_case(prop, c, r, m, cfg, truth)
            part["evaluations"] += 1
            cnt["family:" + stream] = cnt.get("family:" + stream, 0) + 1
            for kk, vv in C.items():
                cnt[kk] = cnt.get(kk, 0) + vv
            if nontriv:
                part["distinct"].append(run.h(m.key(), cfg_key(cfg)))
            if "watchdog_inconclusive" in C:
                part["inconclusive"].append("watchdog expired twice: %s" % c.id)
            for key, what in V:
                rp = run.save_replay(prop, c, what)
                part["violations"].append(dict(key=key, what=what, replay=rp))
            if len(part["samples"]) < 1 and nontriv:
                part["samples"].append(dict(case=c.id, config=cfg, script=c.script[:40]))
    finally:
        run.cleanup(wd)
    return part


def plan(prop, tier):
    """list of (stream, count)"""
    q = tier == "quick"
    if prop == "C01":
        n = 90 if q else 5000
        P = [(f, n) for f in ["small-rand", "small-int", "degenerate", "illcond", "thin", "planted-opt", "tiny"]]
        P.append(("knife", 450 if q else 12000))
        P.append(("knife-x", 40 if q else 1500))
        P.append(("boxed", 120 if q else 5000))
        P.append(("flips", 200 if q else 8000))
        P.append(("medium", 8 if q else 300))
        P.append(("big", 24 if q else 800))
        return P
    if prop == "C02":
        n = 70 if q else 3000
        return [("planted-inf", 3 * n), ("thin", 2 * n), ("small-rand", n), ("small-int", n), ("degenerate", n), ("tiny", n), ("illcond", n),
                ("knife", 4 * n), ("knife-far", n), ("knife-x", n), ("planted-inf-x", n // 2), ("boxed", 2 * n)]
    if prop == "C03":
        n = 150 if q else 4000
        P = [(f, n) for f in ["small-rand", "small-int", "degenerate", "illcond", "thin", "planted-opt", "planted-inf"]]
        P.append(("planted-unb", 60 if q else 1500))
        P.append(("knife", 300 if q else 10000))
        P.append(("big", 40 if q else 1500))
        P.append(("boxed", 200 if q else 8000))
        P.append(("tiny", 1000 if q else 30000))
        return P
    raise ValueError(prop)


RULES = {
    "C01": "cases = (LP from seeded families, random configuration: entry point x pricing x scaling x display x precision x iteration limit x warm-start mode); a case is non-trivial when the solve returned rc=0/OPTIMAL (then every clause of the exact optimality certificate is checked on out-parameters and all accessors); distinct = hash(LP data, configuration)",
    "C02": "cases as C01 weighted to infeasible LPs (planted contradictions with margins down to 2^-200, ranged/equality rows; `knife` gadgets: infeasible by / feasible by / exactly tight at 2^-20..2^-90 or within the rounding of 2^53-sized data, on bounds, sums and equality chains); non-trivial = solve returned INFEASIBLE (Farkas vector checked exactly; truth from certified reference/planting); distinct = hash(LP, configuration)",
    "C03": "well-formed LPs of moderate bit-size, default limits, QSexact_solver primal or dual; truth from the self-certifying exact reference simplex; non-trivial = truth certified (every such case is compared on rc, status and exact optimal value); distinct = hash(LP, entry)",
}


def run_check(prop, tier, seed):
    b = run.builds(["asan"])
    rep = run.Report(prop, tier, seed, RULES[prop])
    rep.assumptions = ["the Python reference simplex/certificate checkers (vlib/refsolve.py, vlib/cert.py) are correct; the reference is self-certifying",
                       "inputs are generated inside (-1e150, 1e150) which the library treats as finite"]
    payloads = []
    per = 15 if tier == "quick" else 60
    for stream, n in plan(prop, tier):
        step = 2 if stream in ("medium", "big") else per
        for s in range(0, n, step):
            payloads.append(dict(prop=prop, tier=tier, seed=seed, stream=stream, start=s, count=min(step, n - s), bindir=b["asan"]))
    payloads.sort(key=lambda p: 0 if p["stream"] in ("medium", "big", "planted-unb") else 1)
    for part in run.pool_map("checks.solvefam", "chunk", payloads):
        rep.merge(part)
    return rep.finish(floor=100)


def replay(prop, path):
    b = run.builds(["asan"])
    case, d = run.load_replay(path)
    meta = d.get("meta", {})
    # regenerate model/config from the script itself
    wd = run.workdir("replay")
    try:
        res = run.run_cases(os.path.join(b["asan"], "qsdrive"), [case], wd, batch=1)
        r = res[case.id]
        cfg = meta.get("cfg") or default_config("exact-dual")
        m = None
        if not (r.crash or r.timeout):
            last = find_last_solve(case.script, r.events)
            m = last["model"]
        truth = truth_of(m) if m is not None else None
        V, C, _ = judge_case(prop, case, r, m, cfg, truth)
    finally:
        run.cleanup(wd)
    for key, what in V:
        print("VIOLATION property=%s replay=%s" % (prop, path))
        print("  key: %s\n  what: %s" % (key, what[:2000]))
    if not V:
        print("replay: no violation reproduced")
    return 1 if V else 0
