"""C19: the esolver program reports exactly what the library computed."""
import bz2, gzip, os, re, subprocess, sys
sys.path.insert(0, os.path.dirname(os.path.dirname(os.path.abspath(__file__))))
from fractions import Fraction as F
from vlib import run, gen_lp, model, iofmt, mutate, cert, refsolve
from vlib.rat import INF, NINF
from checks import iofam, solvefam as sf

MAXMEM = "18446744073709551615"


def gen(tier, seed, stream, k):
    rnd = run.rng("C19", tier, seed, stream, k)
    fmt = rnd.choice(["LP", "MPS"])
    fam = rnd.choice(["small-rand", "planted-opt", "planted-opt", "degenerate", "planted-inf", "thin", "small-int"])
    m = gen_lp.family(rnd, fam)
    if stream == "valid" and k % 25 == 4:
        # rationals of hundreds to tens of thousands of digits: the values in the solution file outgrow any fixed buffer
        m = iofam.io_model(rnd, "bignum")
        for c in m.cols:
            c.isint = 0
    m.rows = [r for r in m.rows if r.coef]
    if not m.rows or not m.cols:
        m = gen_lp.planted_optimal(rnd, 3, 4)
    for c in m.cols:
        if c.obj == 0 and not any(c in r.coef for r in m.rows):
            m.rows[0].coef[c] = F(1)
    if fmt == "LP":
        for r in m.rows:
            if r.sense == "R":
                r.sense, r.range = "G", F(0)      # LP text cannot name the second half of a range row
    used = set()
    m.name = iofmt.rnd_name(rnd, set(), "pb")
    for c in m.cols:
        c.name = iofmt.rnd_name(rnd, used)
    for r in m.rows:
        r.name = iofmt.rnd_name(rnd, used)
    text, exp = (iofmt.lp_text(m, rnd, allnamed=True) if fmt == "LP" else iofmt.mps_text(m, rnd))
    if fmt == "LP" and any(r.name is None for r in exp.rows):
        # regenerate the constraint names deterministically: prefix every unnamed row is not possible -> fall back to MPS
        fmt = "MPS"
        text, exp = iofmt.mps_text(m, rnd)
    comp = rnd.choice(["", "", ".gz", ".bz2"])
    ext = {"LP": ".lp", "MPS": ".mps"}[fmt]
    useL = fmt == "LP" and rnd.random() < 0.4
    stem = "in%d" % k
    if stream == "valid" and rnd.random() < 0.15:
        # readable is readable: blanks, extra dots and bytes above 127 in the name must not matter
        stem = rnd.choice(["my in%d", "mod\u00e8le%d", "a.b.in%d", "in%d.v2", " in%d"]) % k
    fname = "%s%s%s" % (stem, ".txt" if useL and not comp else ext, comp)
    data = text.encode()
    if stream == "mutant":
        data = mutate.to_bytes(mutate.mutate(text, rnd))
    if comp == ".gz":
        data = gzip.compress(data)
    elif comp == ".bz2":
        data = bz2.compress(data)
    opts = []
    if useL:
        opts.append("-L")
    t = rnd.random()
    if t < 0.3:
        opts += ["-p", str(rnd.choice([1, 2, 3, 4]))]
    elif t < 0.6:
        opts += ["-d", str(rnd.choice([6, 7, 8, 9]))]
    if rnd.random() < 0.3:
        opts.append("-S")
    if rnd.random() < 0.3:
        opts += ["-P", str(rnd.choice([64, 128, 256, 512]))]
    solext = rnd.choice(["", "", ".gz", ".bz2"])
    return dict(k=k, stream=stream, fmt=fmt, fname=fname, data=data, opts=opts, solext=solext, exp=exp, text=text[:3000], flavour=rnd.choice(["asan", "plain"]),
                basis=rnd.random() < 0.35)


def run_esolver(bindir, flavour, wd, args, timeout=300):
    exe = os.path.join(bindir[flavour], "esolver")
    cmd = [exe] + (["-m", MAXMEM] if flavour == "asan" else []) + args
    env = run.san_env(wd, leaks=False)
    try:
        p = subprocess.run(cmd, cwd=wd, env=env, stdout=subprocess.PIPE, stderr=subprocess.PIPE, timeout=timeout)
        rc, err = p.returncode, p.stderr
    except subprocess.TimeoutExpired:
        return None, b"", ""
    return rc, err, run._read_san(wd)


def read_sol(path):
    try:
        raw = open(path, "rb").read()
    except OSError:
        return None
    if path.endswith(".gz"):
        raw = gzip.decompress(raw)
    elif path.endswith(".bz2"):
        raw = bz2.decompress(raw)
    return raw.decode("latin-1")


def parse_sol(txt):
    """-> dict(status, value, VARS{}, RC{}, PI{}, SLACK{})"""
    out = dict(status=None, value=None, VARS={}, RC={}, PI={}, SLACK={})
    sec = None
    for ln in txt.split("\n"):
        s = ln.strip()
        if not s:
            continue
        m = re.match(r"status = (\S+)", s)
        if m:
            out["status"] = m.group(1)
            continue
        if s.startswith("status "):
            continue
        m = re.match(r"Value = (\S+)", s)
        if m:
            out["value"] = F(m.group(1))
            continue
        if s in ("VARS:", "REDUCED COST:", "PI:", "SLACK:"):
            sec = {"VARS:": "VARS", "REDUCED COST:": "RC", "PI:": "PI", "SLACK:": "SLACK"}[s]
            continue
        m = re.match(r"(\S+) = (\S+)$", s)
        if m and sec:
            out[sec][m.group(1)] = F(m.group(2))
        else:
            out.setdefault("junk", []).append(s)
    return out


def judge_one(g, bindir, wd):
    V, C = [], {}
    exp = g["exp"]
    open(os.path.join(wd, g["fname"]), "wb").write(g["data"])
    sol = "out%d.sol%s" % (g["k"], g["solext"])
    if g["stream"] == "valid" and g["k"] % 40 == 7:
        # a solution file that cannot be created: whatever esolver answers, it must not crash
        xb = ["-b", "outx%d.bas" % g["k"]] if g["basis"] else []
        rc, err, san = run_esolver(bindir, g["flavour"], wd, list(g["opts"]) + xb + ["-O", os.path.join(wd, "no", "such", "dir", sol), g["fname"]])
        C["runs"] = 1
        C["unwritable-O"] = 1
        if rc == 0:
            V.append(("C19|unwritable-O|exit-0", "esolver exits 0 although the solution file could not be written (options %s)" % (list(g["opts"]) + xb)))
        if rc is None or san or rc < 0 or rc == 86:
            cr = run.triage(san or err.decode("latin-1")[-3000:], rc if rc is not None else -9)
            return [("C19|unwritable-O|%s|%s" % (cr["kind"], ">".join(cr["frames"])), "esolver -O <unwritable> died: %s\n%s" % (cr["kind"], cr["text"][:1200]))], C, True
        return V, C, True
    args = list(g["opts"]) + ["-O", sol]
    if g["basis"]:
        args += ["-b", "out%d.bas" % g["k"]]
    rc, err, san = run_esolver(bindir, g["flavour"], wd, args + [g["fname"]])
    C["runs"] = 1
    C["flavour:" + g["flavour"]] = 1
    C["opts:" + " ".join(x for x in g["opts"] if x.startswith("-"))] = 1
    if rc is None:
        return [("C19|hang", "esolver did not finish: %s" % args)], C, False
    if san or rc < 0 or rc == 86:
        cr = run.triage(san or err.decode("latin-1")[-3000:], rc)
        return [("C19|%s|%s|%s" % (g["stream"], cr["kind"], ">".join(cr["frames"])), "esolver %s died: %s\n%s" % (args, cr["kind"], cr["text"][:1200]))], C, False
    if g["stream"] == "mutant":
        C["mutant-exit:%s" % ("0" if rc == 0 else "nonzero")] = 1
        return V, C, True
    if rc != 0:
        return [("C19|valid-file|exit-nonzero", "esolver exit %d on a valid %s file (opts %s): %s\n%s" % (rc, g["fmt"], g["opts"], err.decode("latin-1")[-600:], g["text"][:1200]))], C, True
    txt = read_sol(os.path.join(wd, sol))
    if txt is None:
        return [("C19|no-solution-file", "esolver exit 0 but wrote no solution file %s" % sol)], C, True
    try:
        S = parse_sol(txt)
    except (ValueError, ZeroDivisionError) as e:
        return [("C19|solution-file-unparsable", "a line of the solution file is not `name = exact fraction` (%s)\n%s" % (str(e)[:200], txt[:600]))], C, True
    truth = refsolve.solve(exp) if exp.nrows <= 16 and exp.ncols <= 22 else None
    C["status:%s" % S["status"]] = 1
    if S.get("junk"):
        V.append(("C19|junk-lines", "the solution file has lines that are neither a section header nor `name = fraction`: %r" % S["junk"][:3]))
    if S["status"] == "UNDEFINED":
        # the program reports what the library computed: a non-definitive library answer is C03's business, not a misreport
        C["undefined-reported(truth %s)" % (truth["status"] if truth else "?")] = 1
    elif truth and truth["status"] in ("OPTIMAL", "INFEASIBLE", "UNBOUNDED") and S["status"] != truth["status"]:
        V.append(("C19|status:%s-truth:%s" % (S["status"], truth["status"]), "solution file says %s, certified truth %s (opts %s)" % (S["status"], truth["status"], g["opts"])))
    if S["status"] == "OPTIMAL":
        names_c = [c.name for c in exp.cols]
        names_r = [r.name for r in exp.rows]
        for sec, names in (("VARS", names_c), ("RC", names_c), ("PI", names_r), ("SLACK", names_r)):
            for n in S[sec]:
                if n not in names:
                    V.append(("C19|unknown-name-in-%s" % sec, "solution file lists %s in %s which is not a name of the problem" % (n, sec)))
            if any(v == 0 for v in S[sec].values()):
                V.append(("C19|zero-listed", "a zero value is listed in section %s" % sec))
        x = [S["VARS"].get(n, F(0)) for n in names_c]
        rcv = [S["RC"].get(n, F(0)) for n in names_c]
        pi = [S["PI"].get(n, F(0)) for n in names_r]
        sl = [S["SLACK"].get(n, F(0)) for n in names_r]
        if S["value"] is None:
            V.append(("C19|no-value", "OPTIMAL without Value line"))
        for t in cert.check_optimal(exp, S["value"], x, pi, rcv, sl):
            V.append(("C19|cert:%s" % iofam.hist_cls(t)[:30], "solution file fails the exact optimality check: %s\n%s" % (t, txt[:800])))
            break
        if truth and truth["status"] == "OPTIMAL" and S["value"] != truth["value"]:
            V.append(("C19|value", "Value %s != true optimum %s" % (S["value"], truth["value"])))
        if g["basis"]:
            bas = os.path.join(wd, "out%d.bas" % g["k"])
            if not os.path.exists(bas):
                V.append(("C19|-b|no-basis-file", "-b given, OPTIMAL, but no basis file written"))
            else:
                sol2 = "out%d.b.sol" % g["k"]
                rc2, err2, san2 = run_esolver(bindir, g["flavour"], wd, [x for x in g["opts"]] + ["-B", "out%d.bas" % g["k"], "-O", sol2, g["fname"]])
                C["runs"] += 1
                if san2 or rc2 is None or rc2 < 0:
                    V.append(("C19|-B|died", "esolver -B died: rc=%r %s" % (rc2, (san2 or "")[:800])))
                elif rc2 != 0:
                    V.append(("C19|-B|basis-rejected", "basis written with -b is not accepted with -B: exit %d: %s" % (rc2, err2.decode("latin-1")[-500:])))
                else:
                    S2 = parse_sol(read_sol(os.path.join(wd, sol2)) or "")
                    if (S2["status"], S2["value"]) != (S["status"], S["value"]):
                        V.append(("C19|-B|answer-differs", "with -B: %s %s, without: %s %s" % (S2["status"], S2["value"], S["status"], S["value"])))
                    C["basis-roundtrips"] = 1
                # "is accepted as optimal": esolver -B would silently repair a wrong start basis by pivoting, so the file is also
                # read back through the library's reader against the same problem file and judged by its exact verdict function
                fmt = "LP" if ("-L" in g["opts"] or ".lp" in g["fname"]) else "MPS"
                sub = os.path.join(wd, "bv%d" % g["k"])
                vc = run.Case("C19-bv-%d" % g["k"], ["read_prob p0 %s %s" % (os.path.join(wd, g["fname"]), fmt),
                                                    "read_basis p0 %s b1" % bas, "basis_optimalstatus p0 b1", "basis_dualstatus p0 b1"])
                try:
                    rr = run.run_cases(os.path.join(bindir["asan"], "qsdrive"), [vc], sub, batch=1, timeout=120)[vc.id]
                except run.HarnessError:
                    rr = None
                if rr is not None and not rr.crash and not rr.timeout:
                    rp, rb, bo = rr.ev("read_prob"), rr.ev("read_basis"), rr.ev("basis_optimalstatus")
                    if rp is not None and rp.get("rc") == 0:
                        C["basis-verdicts"] = 1
                        if rb is None or rb.get("rc") != 0:
                            V.append(("C19|-b|basis-unreadable", "the basis file written with -b is rejected by QSread_basis: %s" % (rb or {}).get("logs", [])[:3]))
                        elif bo is None or bo.get("rc") != 0 or bo.get("result") != 1:
                            V.append(("C19|-b|basis-not-optimal", "the basis file written with -b is not an optimal basis of the problem (QSexact_basis_optimalstatus: %r)\n%s" % (
                                bo, (read_sol(bas) or "")[:600])))
    return V, C, True


def chunk(payload):
    tier, seed, stream, start, count, bindir = (payload[k] for k in ("tier", "seed", "stream", "start", "count", "bindir"))
    wd = run.workdir("C19-%s-%d" % (stream, start))
    part = dict(evaluations=0, distinct=[], counters={}, violations=[], inconclusive=[], samples=[])
    cnt = part["counters"]
    try:
        for k in range(start, start + count):
            g = gen(tier, seed, stream, k)
            V, C, nontriv = judge_one(g, bindir, wd)
            part["evaluations"] += C.get("runs", 1)
            cnt["stream:" + stream] = cnt.get("stream:" + stream, 0) + 1
            for a, b in C.items():
                cnt[a] = cnt.get(a, 0) + b
            if nontriv:
                part["distinct"].append(run.h(g["data"], g["opts"]))
            for key, what in V:
                c = run.Case("C19-%s-%d" % (stream, k), ["# esolver %s %s" % (" ".join(g["opts"]), g["fname"])], dict(stream=stream, k=k, tier=tier, seed=seed), {g["fname"]: g["data"]})
                part["violations"].append(dict(key=key, what=what, replay=run.save_replay("C19", c, what)))
            if not part["samples"] and nontriv:
                part["samples"].append(dict(cmd="esolver %s -O sol %s" % (" ".join(g["opts"]), g["fname"]), file_head=g["text"][:400]))
    finally:
        run.cleanup(wd)
    return part


RULE = ("grammar-generated LP/MPS files (plain/.gz/.bz2, format by extension or -L) x options {-L,-O name[.gz|.bz2],-p k,-d k,-S,-P bits,-b,-B}; esolver (ASan build with -m max, "
        "plain build with default limits) must exit 0, state the certified true status, and for OPTIMAL the listed non-zero x/rc/pi/slack (zeros implied) with Value must pass the "
        "exact optimality certificate; a basis written with -b must be accepted with -B and give the same answer; bignum LPs (900-bit data, literals of 4000-18000 digits) whose solution values outgrow any fixed buffer: every line must parse as `name = exact fraction`, no junk lines; the -b file is read back with QSread_basis and judged by QSexact_basis_optimalstatus; -O to an uncreatable path must not crash; UNDEFINED is counted, not judged; mutated files: no signal / sanitizer report; "
        "non-trivial = esolver ran to exit; distinct = hash(file, options)")


def run_check(prop, tier, seed):
    b = run.builds(["asan", "plain"])
    rep = run.Report(prop, tier, seed, RULE)
    q = tier == "quick"
    payloads = []
    for stream, n in (("valid", 1200 if q else 20000), ("mutant", 600 if q else 10000)):
        for s in range(0, n, 10):
            payloads.append(dict(tier=tier, seed=seed, stream=stream, start=s, count=min(10, n - s), bindir=b))
    for part in run.pool_map("checks.c19", "chunk", payloads):
        rep.merge(part)
    return rep.finish(floor=200)


def replay(prop, path):
    b = run.builds(["asan", "plain"])
    case, d = run.load_replay(path)
    meta = d.get("meta", {})
    g = gen(meta.get("tier", "quick"), meta.get("seed", 1), meta.get("stream"), meta.get("k"))
    wd = run.workdir("replayC19")
    try:
        V, C, _ = judge_one(g, b, wd)
    finally:
        run.cleanup(wd)
    for key, what in V:
        print("VIOLATION property=C19 replay=%s\n  key: %s\n  what: %s" % (path, key, what[:2000]))
    if not V:
        print("replay: no violation reproduced")
    return 1 if V else 0
