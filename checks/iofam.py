"""C08 (LP write->read), C09 (MPS write->read, LP<->MPS chains), C10 (grammar-generated files are read as the exact
problem their text denotes)."""
import bz2, gzip, os, sys
from fractions import Fraction as F
sys.path.insert(0, os.path.dirname(os.path.dirname(os.path.abspath(__file__))))
from vlib.model import render
from vlib import run, gen_lp, model, iofmt, script as vscript
from vlib.model import LP, Col, Row, MIN, MAX
from vlib.rat import INF, NINF, parse
from checks import solvefam as sf


def io_model(rnd, stream):
    """well-formed model satisfying the C08 precondition: every column used, no empty row, >=1 row"""
    if stream == "longrow":
        n = rnd.randint(150, 420)
        m = LP("longrow", rnd.choice([MIN, MAX]))
        m.cols = [Col(None, gen_lp.rnd_num(rnd, "small"), F(0), INF) for _ in range(n)]
        r = Row(None, rnd.choice("LGE"), 100, 0)
        for c in m.cols:
            v = gen_lp.rnd_num(rnd, "small")
            r.coef[c] = v if v != 0 else F(1)
        m.rows = [r, Row(None, "L", 7, 0, {m.cols[0]: F(1), m.cols[-1]: F(2)})]
    else:
        kind = "awkward" if stream == "bignum" else "small"
        m = gen_lp.small_rand(rnd, 6, 7, kind)
        if stream == "bignum":
            for r in m.rows:
                for c in list(r.coef):
                    if rnd.random() < 0.3:
                        r.coef[c] = F(rnd.getrandbits(900) + 1, rnd.getrandbits(800) + 1) * rnd.choice([1, -1])
            for c in m.cols:
                if rnd.random() < 0.3:
                    c.obj = F(rnd.getrandbits(1000) + 1, rnd.getrandbits(990) + 1)
            if rnd.random() < 0.25:
                # one literal longer than any fixed I/O buffer (4096, 8192, ... characters)
                bits = rnd.choice([14000, 14000, 28000, 60000])
                # numerator and denominator both long: the value itself stays far inside (-1e150, 1e150)
                v = F(rnd.getrandbits(bits) | (1 << (bits - 1)) | 1, rnd.getrandbits(bits - rnd.randint(0, 300)) | (1 << (bits - 301)) | 1) * rnd.choice([1, -1])
                t = rnd.random()
                if t < 0.4 and m.rows and m.rows[0].coef:
                    m.rows[0].coef[next(iter(m.rows[0].coef))] = v
                elif t < 0.7:
                    m.cols[0].obj = v
                elif t < 0.85 and m.rows:
                    m.rows[0].rhs = v
                else:
                    m.cols[0].lo, m.cols[0].up = min(v, v + 5), INF
    m.rows = [r for r in m.rows if r.coef]
    if not m.rows:
        m.rows = [Row(None, "L", 3, 0, {m.cols[0]: F(1)})]
    for c in m.cols:
        if c.obj == 0 and not any(c in r.coef for r in m.rows):
            rnd.choice(m.rows).coef[c] = F(rnd.choice([1, -2, 3]))
    for r in m.rows:
        if r.sense == "R" and rnd.random() < 0.15:
            r.range = F(0)
    for c in m.cols:
        if stream != "noint" and rnd.random() < 0.2:
            c.isint = 1
            if rnd.random() < 0.5:
                c.lo, c.up = F(0), F(1)
            elif c.lo != NINF and c.up != INF and c.lo > c.up:
                c.lo, c.up = c.up, c.lo
    used = set()
    special = stream == "names"
    m.name = iofmt.rnd_name(rnd, set(), "pb")
    for c in m.cols:
        c.name = iofmt.rnd_name(rnd, used, "", special)
    for r in m.rows:
        r.name = iofmt.rnd_name(rnd, used, "", special)
    return m


REPAIR_NAMES = ["inf", "Inf", "INFINITY", "infinity", "free", "Free", "FREE", "1abc", ".dot", "9", "a*b", "a^2", "a[1]", "x+y", "a-b", "a<b", "a>b", "a=b", "a:b", "2e5", "e9", "E12x", "a\\b"]
CLASH_NAMES = ["x1", "x2", "c1", "c2", "c3", "obj", "x_1", "c_2", "C1", "X3"]


def gen_case(prop, tier, seed, stream, k):
    rnd = run.rng(prop, tier, seed, stream, k)
    cid = "%s-%s-%d" % (prop, stream, k)
    if prop == "C10":
        fmt = rnd.choice(["LP", "MPS"])
        if stream == "literal":
            # one special literal as the only interesting coefficient
            m = LP("lit", MIN)
            x, y = Col("xa", 1, F(0), INF), Col("yb", 1, F(0), INF)
            m.cols = [x, y]
            v = rnd.choice([F(1, 10), F(1, 2), F(5), F(1, 1000), F(1250), F(-7, 3), F(3, 5), F(rnd.getrandbits(1200) + 1, 1),
                            F(rnd.getrandbits(600) + 1, rnd.getrandbits(500) + 1), F(1, 3), F(123456789, 1000000), F(1, 10 ** 30), F(10 ** 40)])
            m.rows = [Row("ra", "G", 1, 0, {x: v, y: F(1)})]
        else:
            m = io_model(rnd, stream)
        text, exp = (iofmt.lp_text if fmt == "LP" else iofmt.mps_text)(m, rnd)
        comp = rnd.choice(["", "", "", ".gz", ".bz2"])
        fn = "f%d.%s%s" % (k, fmt.lower(), comp)
        data = text.encode()
        if comp == ".gz":
            data = gzip.compress(data)
        elif comp == ".bz2":
            data = bz2.compress(data)
        via = rnd.choice(["read_prob", "read_prob", "get_prob"]) if not comp else "read_prob"
        L = ["%s p0 @W@/%s %s%s" % (via, fn, fmt if rnd.random() < 0.7 else fmt.lower(), " 1" if via == "get_prob" else ""), "dump p0"]
        return run.Case(cid, L, dict(stream=stream, fmt=fmt, text=text if len(text) < 6000 else text[:6000], comp=comp), {fn: data}), exp
    # C08 / C09: build through the API, write, read back
    m = io_model(rnd, stream if stream in ("longrow", "bignum") else "noint")
    for c in m.cols:
        c.isint = 0          # the API has no call to mark a column integer; integer marks are covered by the `fromfile` stream
    repaired = False
    if stream == "repair":
        pool = REPAIR_NAMES + CLASH_NAMES
        for o in rnd.sample(m.cols + m.rows, min(len(m.cols) + len(m.rows), rnd.randint(1, 4))):
            cand = rnd.choice(pool)
            if cand not in [x.name for x in m.cols + m.rows]:
                o.name = cand
                repaired = repaired or cand in REPAIR_NAMES
        if rnd.random() < 0.2 and len(m.cols) >= 2:
            # a column with a lower bound only, directly followed by a column called free (inf, infinity) that has bounds of its own:
            # after "3 <= x" the reader looks on, across the line end, for an upper bound or the keyword free
            i = rnd.randrange(len(m.cols) - 1)
            word = rnd.choice(["free", "Free", "FREE", "free", "inf", "Infinity"])
            if word not in [x.name for x in m.cols + m.rows]:
                m.cols[i].lo, m.cols[i].up = F(rnd.randint(1, 9)), INF
                m.cols[i + 1].name = word
                m.cols[i + 1].lo, m.cols[i + 1].up = rnd.choice([(F(0), F(4)), (NINF, INF), (NINF, F(7)), (F(-2), F(5))])
                repaired = True
        if rnd.random() < 0.35:
            # a name the writer has to replace (the replacement is built from the item's index) next to a legal-looking name that
            # is exactly that index in decimal: the two must still come out different
            for group in (m.cols, m.rows):
                if len(group) >= 2 and rnd.random() < 0.6:
                    i, j = rnd.sample(range(len(group)), 2)
                    bad = rnd.choice(["b*c", "a^%d" % i, "p[%d]" % i, "u+v", "q<r"]) + ("" if rnd.random() < 0.5 else str(rnd.randint(0, 99)))
                    taken = [x.name for x in m.cols + m.rows]
                    if str(i) not in taken and bad not in taken:
                        group[i].name = bad
                        group[j].name = str(i)
                        repaired = True
    if stream in ("repair", "plain") and rnd.random() < 0.08 and m.rows:
        # all-zero objective (the objective still has a name, and a row may be called obj)
        for c in m.cols:
            c.obj = F(0)
            if not any(c in r.coef for r in m.rows):
                rnd.choice(m.rows).coef[c] = F(rnd.choice([1, -2, 3]))
        if rnd.random() < 0.6 and "obj" not in [x.name for x in m.cols + m.rows]:
            rnd.choice(m.rows).name = "obj"
    if stream == "repair" and rnd.random() < 0.2:
        # the problem name is written on a line of its own and read back as one field
        m.name = rnd.choice(["my prob", "", "a b c", " lead", "tab\there", "trail "])
    fmt = "LP" if prop == "C08" else "MPS"
    files = {}
    if stream == "fromfile":
        # start from a text file so that integer marks (which the API cannot set) take part in the round trip
        m = io_model(rnd, "plain")
        srcfmt = rnd.choice(["LP", "MPS"])
        text, m = (iofmt.lp_text if srcfmt == "LP" else iofmt.mps_text)(m, rnd)
        for r in m.rows:
            if r.name is None:
                r.name = "?"          # generated by the reader; resolved from the first dump
        files["src%d.%s" % (k, srcfmt.lower())] = text.encode()
        L = ["read_prob p0 @W@/src%d.%s %s" % (k, srcfmt.lower(), srcfmt), "dump p0"]
    else:
        L = model.script_build(m, "p0", rowwise=rnd.random() < 0.6)
        if rnd.random() < 0.2 and m.nrows:
            # rows re-typed after the build: a row made 'R' on a problem that may have had no range row at all (the range stays 0
            # until set), a former range row made one-sided
            for _ in range(rnd.randint(1, 2)):
                i = rnd.randrange(m.nrows)
                r = m.rows[i]
                if r.sense == "R":
                    op = ("change_sense", i, rnd.choice("LGE"))
                    m.apply(op)
                    L.append(render(op, "p0"))
                else:
                    op = ("change_sense", i, "R")
                    m.apply(op)
                    L.append(render(op, "p0"))
                    if rnd.random() < 0.6:
                        op = ("change_range", i, F(rnd.randint(0, 9), rnd.choice([1, 2, 3])))
                        m.apply(op)
                        L.append(render(op, "p0"))
    ext = rnd.choice(["", "", ".gz", ".bz2"])
    wr = "write_prob" if ext or rnd.random() < 0.7 else "write_prob_file"
    chain = []
    if prop == "C09" and rnd.random() < 0.4:
        chain = rnd.choice([["LP", "MPS", "LP"], ["MPS", "LP", "MPS"]])
    else:
        chain = [fmt]
    cur = "p0"
    for t, f in enumerate(chain):
        fn = "@W@/o%d.%s%s" % (t, f.lower(), ext if wr == "write_prob" else "")
        L.append("%s %s %s %s" % (wr, cur, fn, f))
        nxt = "p%d" % (t + 1)
        L.append("read_prob %s %s %s" % (nxt, fn, f))
        L.append("dump %s" % nxt)
        cur = nxt
    if rnd.random() < 0.3:
        L += ["set_param p0 5 3000", "set_param %s 5 3000" % cur, "solve_exact p0 dual - -", "dumpsol p0", "solve_exact %s dual - -" % cur, "dumpsol %s" % cur]
    return run.Case(cid, L, dict(stream=stream, chain=chain, repaired=repaired, last=cur), files), m


def expected_after(m, fmts):
    """what the problem should look like after passing through the given formats (LP splits ranges, drops empty rows)"""
    e = m.clone()
    e.rows = [r for r in e.rows if r.coef]
    if "LP" in fmts:
        rows = []
        for r in e.rows:
            if r.sense == "R":
                rows.append(Row(r.name, "G", r.rhs, 0, r.coef))
                rows.append(Row(None, "L", r.rhs + r.range, 0, r.coef))
            else:
                rows.append(r)
        e.rows = rows
    return e


def judge(prop, case, res, exp):
    V = []
    C = {}
    if res.crash:
        return [(run.crash_key(prop, res.crash), "process died in %s: %s\n%s" % (res.crash.get("op"), res.crash["kind"], res.crash["text"][:1500]))], {"crash": 1}, False
    if res.timeout:
        return [], {"watchdog_inconclusive": 1}, False
    meta = case.meta
    if prop == "C10":
        rd = res.ev("read_prob") or res.ev("get_prob")
        C["fmt:" + meta["fmt"]] = 1
        C["via:" + rd["op"] + meta["comp"]] = 1
        if rd.get("rc") != 0:
            V.append(("C10|%s|valid-file-rejected" % meta["fmt"], "reader rejected a grammar-valid %s file: %s %s\n%s" % (meta["fmt"], rd.get("logs", [])[:4], rd.get("errors", [])[:3], meta["text"][:1500])))
            return V, C, True
        d = res.ev("dump")
        got = model.from_dump(d)
        bad = iofmt.compare_nf(iofmt.nf(exp), got)
        if bad:
            V.append(("C10|%s|%s" % (meta["fmt"], hist_cls(bad[0])), "%s\n--- file ---\n%s" % ("; ".join(bad[:4])[:900], meta["text"][:1500])))
        return V, C, True
    # C08/C09
    chain = meta["chain"]
    m = exp
    evs = list(res.events)
    writes = [e for e in evs if e.get("op") in ("write_prob", "write_prob_file")]
    reads = res.evs("read_prob")
    dumps = res.evs("dump")
    if meta["stream"] == "fromfile":
        if reads[0].get("rc") != 0:
            raise run.HarnessError("source file of a fromfile case was rejected (C10 territory): %s" % case.id)
        src = model.from_dump(dumps[0])
        reads, dumps = reads[1:], dumps[1:]
        # the problem as read is the starting point (its generated row names included)
        m = src
    for t, f in enumerate(chain):
        C["fmt:" + f] = C.get("fmt:" + f, 0) + 1
        if writes[t].get("rc") != 0 and f == "LP" and any("SOS information in LP format" in str(x) for x in writes[t].get("logs", [])):
            # the LP format cannot carry SOS sets (source file had some): documented refusal, nothing further to compare
            C["lp-writer-refuses-sos(documented)"] = C.get("lp-writer-refuses-sos(documented)", 0) + 1
            return V, C, True
        if writes[t].get("rc") != 0:
            V.append(("%s|%s|write-failed" % (prop, f), "writer returned rc=%r for a valid problem (step %d of %s) logs=%s" % (writes[t].get("rc"), t, chain, writes[t].get("logs", [])[:3])))
            return V, C, True
        if reads[t].get("rc") != 0:
            V.append(("%s|%s|own-output-rejected%s" % (prop, f, "|repaired-names" if meta["repaired"] else ""), "reader rejected the writer's own %s output (step %d of %s): %s" % (f, t, chain, reads[t].get("logs", [])[:6])))
            return V, C, True
    seen = []
    for t, f in enumerate(chain):
        seen.append(f)
        got = model.from_dump(dumps[t])
        e = expected_after(m, seen)
        if meta["repaired"]:
            if iofmt.structure_sig(e) != iofmt.structure_sig(got):
                V.append(("%s|%s|structure-differs|repaired-names" % (prop, f), "after %s the problem differs structurally (names repaired, compared name-free)" % seen))
                break
        else:
            bad = iofmt.compare_nf(iofmt.nf(e), got)
            if bad:
                V.append(("%s|%s|%s" % (prop, "->".join(seen), hist_cls(bad[0])), "after %s: %s" % (seen, "; ".join(bad[:4])[:1200])))
                break
    sols = res.evs("solve_exact")
    ds = res.evs("dumpsol")
    if len(sols) == 2 and len(ds) == 2:
        a = (sols[0].get("rc"), sols[0].get("status"), ds[0].get("objval") if sols[0].get("status") == 1 else None)
        b = (sols[1].get("rc"), sols[1].get("status"), ds[1].get("objval") if sols[1].get("status") == 1 else None)
        C["status:" + sf.ST.get(a[1], str(a[1]))] = 1
        if a[0] == 0 and b[0] == 0 and a[1] in (1, 2, 3) and b[1] in (1, 2, 3) and a != b:
            V.append(("%s|%s|solve-differs" % (prop, "->".join(chain)), "original solves to %s, re-read problem to %s" % (a, b)))
    return V, C, True


def hist_cls(msg):
    import re
    msg = re.sub(r"(column|row) \S+", r"\1", msg)
    msg = re.sub(r"Fraction\([-\d, ]+\)", "Q", msg)
    return re.sub(r"[-\d/]+", "N", msg)[:60]


def chunk(payload):
    prop, tier, seed, stream, start, count, bindir = (payload[k] for k in ("prop", "tier", "seed", "stream", "start", "count", "bindir"))
    wd = run.workdir("%s-%s-%d" % (prop, stream, start))
    part = dict(evaluations=0, distinct=[], counters={}, violations=[], inconclusive=[], samples=[])
    cnt = part["counters"]
    try:
        cases, exps = [], {}
        for k in range(start, start + count):
            c, e = gen_case(prop, tier, seed, stream, k)
            cases.append(c)
            exps[c.id] = e
        res = run.run_cases(os.path.join(bindir, "qsdrive"), cases, wd, batch=20, timeout=300)
        for c in cases:
            V, C, nontriv = judge(prop, c, res[c.id], exps[c.id])
            part["evaluations"] += 1
            cnt["stream:" + stream] = cnt.get("stream:" + stream, 0) + 1
            for a, b in C.items():
                cnt[a] = cnt.get(a, 0) + b
            if nontriv:
                part["distinct"].append(run.h(c.script, c.meta.get("text"), sorted(c.files.items())))
            if "watchdog_inconclusive" in C:
                part["inconclusive"].append("watchdog: %s" % c.id)
            for key, what in V:
                part["violations"].append(dict(key=key, what=what, replay=run.save_replay(prop, c, what)))
            if not part["samples"]:
                part["samples"].append(dict(case=c.id, script=c.script[-8:], text=(c.meta.get("text") or "")[:800]))
    finally:
        run.cleanup(wd)
    return part


RULES = {
    "C08": "well-formed models (every column used, >=1 non-empty row; all senses incl. ranges with range 0, all bound shapes, integer marks, 900-bit rationals, 150-420-term rows, names needing repair or clashing with generated names) built through the API, written with QSwrite_prob(_file) as LP (plain/.gz/.bz2), read back and compared by name with the model (range rows as their two halves); both problems solved exactly and compared; non-trivial = every case; distinct = hash(script)",
    "C09": "as C08 with MPS (RANGES must come back as R rows with the same rhs and range) plus chains LP->MPS->LP and MPS->LP->MPS",
    "C10": "LP and MPS texts rendered from a known model by an independent grammar-driven generator (vlib/iofmt.py) making every lexical choice at random (number spellings, keyword spellings/case, split and repeated terms, line breaks, comments, bound forms, set names, markers, compression), read with QSread_prob / QSget_prob and compared with the model by name as exact rationals; non-trivial = every case; distinct = hash(text)",
}


def plan(prop, tier):
    q = tier == "quick"
    if prop == "C10":
        return [("plain", 12000 if q else 200000), ("names", 3000 if q else 40000), ("bignum", 1500 if q else 20000), ("literal", 4000 if q else 60000), ("longrow", 120 if q else 1500)]
    return [("plain", 600 if q else 20000), ("fromfile", 300 if q else 8000), ("repair", 200 if q else 5000), ("bignum", 150 if q else 3000), ("longrow", 24 if q else 300)]


def run_check(prop, tier, seed):
    b = run.builds(["asan"])
    rep = run.Report(prop, tier, seed, RULES[prop])
    rep.assumptions = ["vlib/iofmt.py emits only constructs documented for the LP (CPLEX-style) and free-format MPS inputs of this library",
                       "names are compared by name; problems whose names the writer has to repair are compared name-free (multisets of columns/rows) and by exact solve"]
    payloads = []
    for stream, n in plan(prop, tier):
        step = 6 if stream == "longrow" else 40
        for s in range(0, n, step):
            payloads.append(dict(prop=prop, tier=tier, seed=seed, stream=stream, start=s, count=min(step, n - s), bindir=b["asan"]))
    payloads.sort(key=lambda p: 0 if p["stream"] == "longrow" else 1)
    for part in run.pool_map("checks.iofam", "chunk", payloads):
        rep.merge(part)
    return rep.finish(floor=100)


def replay(prop, path):
    b = run.builds(["asan"])
    case, d = run.load_replay(path)
    meta = d.get("meta", {})
    k = int(case.id.split("-")[-1])
    stream = meta.get("stream")
    found = None
    # regenerate the expectation with the generator (tier/seed are part of the rng key: try the recorded ones)
    for tier in ("quick", "thorough"):
        for seed in [int(os.environ.get("VERIF_SEED", "1"))] + list(range(0, 12)):
            c, e = gen_case(prop, tier, seed, stream, k)
            if c.script == case.script and c.meta.get("text") == meta.get("text"):
                found = (c, e)
                break
        if found:
            break
    if not found:
        raise run.HarnessError("cannot regenerate the case of %s (generator changed?)" % path)
    c, e = found
    wd = run.workdir("replay" + prop)
    try:
        res = run.run_cases(os.path.join(b["asan"], "qsdrive"), [c], wd, batch=1)
        V, C, _ = judge(prop, c, res[c.id], e)
    finally:
        run.cleanup(wd)
    for key, what in V:
        print("VIOLATION property=%s replay=%s\n  key: %s\n  what: %s" % (prop, path, key, what[:2500]))
    if not V:
        print("replay: no violation reproduced")
    return 1 if V else 0
