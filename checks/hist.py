"""C05 (re-solve after edits == fresh solve; no stale solution) and C06 (queries reflect exactly the edits made).
Histories are generated against O-model; the judge replays the script on O-model in lockstep with the event log."""
import os, re, sys
sys.path.insert(0, os.path.dirname(os.path.dirname(os.path.abspath(__file__))))
from vlib import run, gen_lp, gen_hist, model, cert, refsolve, script as vscript
from vlib.rat import parse, parse_list
from vlib.model import render
from vlib.rat import INF, NINF
from fractions import Fraction as F
from checks import solvefam as sf

SOLVES = ["solve_exact p0 primal - xy", "solve_exact p0 dual - xy", "opt_primal p0", "opt_dual p0", "opt_primal p0", "opt_dual p0"]


def cls(msg):
    return re.sub(r"[-\d/]+", "N", msg)[:48]


# ------------------------------------------------------------------ C06
def gen_c06_matgrow(rnd, tier, k):
    """Aimed at the column-major store: every step appends a column (which then lies last in the used area) and a row that lists
    that column first and touches a few older columns, which have to be relocated.  The free space at the end of the store is
    thereby walked down through all residues again and again (each exhaustion triggers a re-allocation), so that the
    `exactly enough room` / `one slot short` boundaries of the in-place and relocating paths are hit many times."""
    nm = gen_hist.Namer()
    m = gen_hist.base_lp(rnd, 3)
    L = model.script_any(m, "p0", rnd)
    n = rnd.randint(90, 160) if tier == "quick" else rnd.randint(150, 500)
    for t in range(n):
        nr = m.nrows
        ents = gen_hist.ents(rnd, nr, maxn=rnd.choice([0, 1, 2, 5]))
        lo, up = gen_hist.bounds(rnd)
        ops = [("add_col", gen_hist.val(rnd), lo, up, nm.col(rnd), ents)] if rnd.random() < 0.8 else \
              [("new_col", gen_hist.val(rnd), lo, up, nm.col(rnd))]
        m.apply(ops[0])
        newj = m.ncols - 1
        others = rnd.sample(range(newj), min(newj, rnd.randint(1, 6)))
        if rnd.random() < 0.85:
            cols = [newj] + others
        else:
            cols = others + [newj]
        rowents = [(j, gen_hist.val(rnd, nz=True)) for j in cols]
        sense = rnd.choice("LGE")
        ops.append(("add_row", gen_hist.val(rnd), sense, nm.row(rnd), rowents))
        m.apply(ops[1])
        if rnd.random() < 0.15 and m.nrows > 3:
            op = ("delete_row", rnd.randrange(m.nrows))
            m.apply(op)
            ops.append(op)
        if rnd.random() < 0.1 and m.ncols > 3:
            j = rnd.randrange(m.ncols)
            i = rnd.randrange(m.nrows)
            op = ("change_coef", i, j, gen_hist.val(rnd, nz=True))
            m.apply(op)
            ops.append(op)
        for op in ops:
            L.append(render(op))
        if t % 10 == 9:
            L.append("dump p0")
            L.append("storecheck p0")
    L += ["dump p0", "storecheck p0"]
    return run.Case("C06-matgrow-%d" % k, L, dict(stream="matgrow", k=k))


def gen_c06_namechurn(rnd, tier, k):
    """Aimed at the name tables: waves of `add many names - delete most of them - add again`, so that the string pool of the symbol
    table fills up while more than half of it belongs to deleted names (the state in which it is compacted instead of doubled);
    names of mixed length, some waves on rows, some on columns, some on both; every name is looked up after every wave (dumpx)."""
    m = gen_hist.base_lp(rnd, 0)
    L = model.script_any(m, "p0", rnd)
    serial = [0]

    def name(pre):
        serial[0] += 1
        return "%s%d%s" % (pre, serial[0], "q" * rnd.choice([0, 0, 1, 3, 7, 12]))

    for wave in range(rnd.randint(2, 5)):
        what = rnd.choice(["c", "c", "r", "b"])
        n = rnd.randint(20, 140)
        for t in range(n):
            if what in "cb":
                op = ("new_col", F(rnd.randint(-3, 3)), F(0), INF, name(rnd.choice(["v", "w", "Kol"])))
                m.apply(op)
                L.append(render(op))
            if what in "rb":
                op = ("new_row", F(rnd.randint(-3, 3)), rnd.choice("LGE"), name(rnd.choice(["r", "Row"])))
                m.apply(op)
                L.append(render(op))
        L.append("dumpx p0" if m.nrows * m.ncols <= 2500 else "dump p0")
        frac = rnd.choice([0.5, 0.7, 0.9, 0.95, 1.0])
        if what in "cb" and m.ncols:
            sel = rnd.sample(range(m.ncols), max(1, int(m.ncols * frac)))
            op = ("delete_cols", sel)
            m.apply(op)
            L.append(render(op))
        if what in "rb" and m.nrows:
            sel = rnd.sample(range(m.nrows), max(1, int(m.nrows * frac)))
            op = ("delete_rows", sel)
            m.apply(op)
            L.append(render(op))
        L.append("dumpx p0" if m.nrows * m.ncols <= 2500 else "dump p0")
        L.append("storecheck p0")
    # one more wave of adds on top of the thinned tables
    for t in range(rnd.randint(30, 120)):
        op = ("new_col", F(1), F(0), INF, name("z")) if rnd.random() < 0.6 else ("new_row", F(0), "L", name("s"))
        m.apply(op)
        L.append(render(op))
        if t % 10 == 9:
            L.append("dump p0")
    L += ["dumpx p0" if m.nrows * m.ncols <= 2500 else "dump p0", "storecheck p0"]
    return run.Case("C06-namechurn-%d" % k, L, dict(stream="namechurn", k=k))


def gen_c06(tier, seed, stream, k):
    rnd = run.rng("C06", tier, seed, stream, k)
    if stream == "matgrow":
        return gen_c06_matgrow(rnd, tier, k)
    if stream == "namechurn":
        return gen_c06_namechurn(rnd, tier, k)
    nm = gen_hist.Namer()
    nm.deflook = True
    if stream == "long":
        m = gen_hist.base_lp(rnd, rnd.choice([2, 3]))
        n = rnd.randint(420, 700) if tier == "quick" else rnd.randint(500, 1800)
        grow = lambda s: 0.97 if s < 0.6 * n else (0.5 if s < 0.7 * n else 0.05)
        every = 12
        nm.maxn = rnd.choice([6, 14, 24])
    else:
        m = gen_hist.base_lp(rnd)
        n = rnd.randint(5, 60)
        grow = lambda s: 0.55
        every = 1
    L = model.script_any(m, "p0", rnd)
    L.append("dumpx p0")
    t = 0
    for op in gen_hist.history(rnd, m, nm, n, grow):
        L.append(render(op))
        t += 1
        if t % every == 0:
            L.append("dump p0")
        if t % (7 * every) == 0 or (stream == "long" and (m.nrows in (100, 101) or m.ncols in (100, 101))):
            if m.nrows * m.ncols <= 2500:
                L.append("dumpx p0")
            L.append("storecheck p0")
    if stream == "long":
        # shrink back to (almost) empty, then once more through the query API
        while m.nrows > 0 or m.ncols > 0:
            if m.nrows and (rnd.random() < 0.5 or not m.ncols):
                op = ("delete_rows", rnd.sample(range(m.nrows), min(m.nrows, rnd.randint(1, 25))))
            else:
                op = ("delete_cols", rnd.sample(range(m.ncols), min(m.ncols, rnd.randint(1, 25))))
            m.apply(op)
            L.append(render(op))
            L.append("dump p0")
            L.append("storecheck p0")
        for op in gen_hist.history(rnd, m, nm, 15, lambda s: 0.9):
            L.append(render(op))
            L.append("dump p0")
    L.append("dumpx p0" if m.nrows * m.ncols <= 2500 else "dump p0")
    L.append("storecheck p0")
    return run.Case("C06-%s-%d" % (stream, k), L, dict(stream=stream, k=k))


def judge_c06(case, res):
    V = []
    C = {"edits": 0, "dumps": 0}
    maxr = maxc = maxnz = 0
    if res.crash:
        return [(run.crash_key("C06", res.crash), "process died in %s: %s\n%s" % (res.crash.get("op"), res.crash["kind"], res.crash["text"][:1500]))], {"crash": 1}, {}
    if res.timeout:
        return [], {"watchdog_inconclusive": 1}, {}
    lastedit = "build"
    try:
        for ln, cmd, slot, op, ev, models in vscript.walk(case.script, res.events):
            m = models.get(slot)
            if cmd in vscript.EDITS or cmd in ("create", "load"):
                C["edits"] += 1
                C["op:" + cmd] = C.get("op:" + cmd, 0) + 1
                lastedit = cmd
                if ev.get("_model_error"):
                    V.append(("C06|%s|invalid-edit-accepted" % cmd, "line %d `%s` returned 0 but its arguments are invalid for the current problem" % (ln, case.script[ln][:200])))
                    break
                if ev.get("rc") != 0:
                    V.append(("C06|%s|valid-edit-rejected" % cmd, "line %d `%s` returned rc=%r; log: %s" % (ln, case.script[ln][:200], ev.get("rc"), ev.get("logs", [])[:3])))
                    break
            elif cmd in ("dump", "dumpx"):
                C["dumps"] += 1
                bad = model.compare_dump(m, ev)
                if bad:
                    V.append(("C06|%s|%s" % (lastedit, cls(bad[0])), "after line %d (`%s`): %s" % (ln, lastedit, "; ".join(bad[:4])[:900])))
                    break
                maxr, maxc, maxnz = max(maxr, m.nrows), max(maxc, m.ncols), max(maxnz, m.nz())
            elif cmd == "storecheck":
                C["storechecks"] = C.get("storechecks", 0) + 1
                if ev.get("ok") != 1:
                    V.append(("C06|storecheck|%s" % ev.get("why"), "after `%s`: internal store inconsistent: %s" % (lastedit, ev.get("why"))))
                    break
    except ValueError as e:
        raise run.HarnessError(str(e))
    return V, C, dict(max_rows=maxr, max_cols=maxc, max_nz=maxnz)


# ------------------------------------------------------------------ C05
def fresh_lines(m, cfg, solve, rnd):
    L = model.script_any(m, "p9", rnd)
    L += sf.param_lines(cfg, "p9")
    L.append(solve.replace("p0", "p9"))
    L.append("dumpsol p9")
    L.append("free p9")
    return L


WARM_KINDS = [("change_bound", 10), ("change_bounds", 4), ("change_objcoef", 5), ("change_rhscoef", 4), ("change_objsense", 1),
              ("new_col", 1), ("add_col", 4), ("add_cols", 1), ("add_row", 2), ("add_rows", 1), ("new_row", 1)]
FILE_KINDS = [("change_sense", 14), ("change_senses", 4), ("change_range", 2), ("change_rhscoef", 2), ("change_bound", 2)]
RSOLVES = ["opt_primal p0", "opt_dual p0"]


def gen_c05_warm(rnd, stream, k):
    """histories aimed at what the library retains between solves.
    warm: only edits that keep the factorization (bounds, objective, rhs, new columns) between rational-simplex solves, on LPs with
          extra free / duplicate / empty columns, so that the retained working basis meets changed bounds in every nonbasic state;
    basisload: solve, load a (random / all-slack / perturbed optimal) basis, then probe, edit (row and column deletions first) and
          re-solve with every entry point, so that a stored solution can never outlive the basis it belongs to."""
    nm = gen_hist.Namer()
    m = gen_hist.base_lp(rnd, rnd.choice([0, 1, 3, 3]))
    cfg = sf.rnd_config(rnd, limits=False, bases=False)
    cfg["entry"] = "opt_primal"
    pre = []
    for t in range(rnd.randint(1, 3)):
        kind = rnd.random()
        lo, up = rnd.choice([(NINF, INF), (NINF, INF), (F(0), INF), (NINF, F(rnd.randint(0, 5)))])
        if kind < 0.4 or not m.ncols:
            op = ("new_col", F(0) if rnd.random() < 0.7 else gen_hist.val(rnd), lo, up, nm.col(rnd))
        else:
            src = rnd.choice(m.cols)
            ents = [(i, r.coef[src] * rnd.choice([1, 1, -1, 2])) for i, r in enumerate(m.rows) if src in r.coef]
            op = ("add_col", F(0) if rnd.random() < 0.5 else src.obj, lo, up, nm.col(rnd), ents)
        m.apply(op)
        pre.append(op)
    files = {}
    if stream == "filewarm":
        # the problem comes from a file: the readers leave structures behind (row-wise copy of the matrix, presolve data) that
        # problems built through the API never have, and that every later edit has to keep valid or drop
        from checks import iofam
        from vlib import iofmt
        if k % 2:
            # mostly feasible and bounded, so that a re-solve has an optimal value to get wrong
            from vlib import gen_lp
            m = gen_lp.family(rnd, rnd.choice(["planted-opt", "planted-opt", "small-int", "degenerate", "boxed"]))
            # a column without any entry cannot be declared in an MPS file
            m.cols = [c for c in m.cols if c.obj != 0 or any(c in r.coef for r in m.rows)]
            if not m.cols:
                m = iofam.io_model(rnd, "noint")
        else:
            m = iofam.io_model(rnd, "noint")
        for c in m.cols:
            c.isint = 0
        text, m = iofmt.mps_text(m, rnd)
        files["src%d.mps" % k] = text.encode()
        L = ["read_prob p0 @W@/src%d.mps MPS" % k, "dump p0"] + sf.param_lines(cfg, "p0")
    else:
        L = model.script_any(m, "p0", rnd) + sf.param_lines(cfg, "p0")
    L += [rnd.choice(RSOLVES if stream != "basisload" else SOLVES), "dumpsol p0"]
    for b in range(rnd.randint(2, 5)):
        if stream in ("warm", "filewarm"):
            for _ in range(rnd.randint(1, 3)):
                if rnd.random() < 0.5 and m.ncols:
                    # give a (possibly free, possibly nonbasic) column a finite / infinite bound
                    j = rnd.randrange(m.ncols)
                    c = m.cols[j]
                    lu = rnd.choice("LUB")
                    v = F(rnd.randint(-4, 6))
                    if lu == "L":
                        v = NINF if rnd.random() < 0.2 else (min(v, c.up) if c.up != INF else v)
                    elif lu == "U":
                        v = INF if rnd.random() < 0.2 else (max(v, c.lo) if c.lo != NINF else v)
                    op = ("change_bound", j, lu, v)
                    m.apply(op)
                    ops = [op]
                else:
                    # every second file-read history also re-types rows: the sign of the row's logical changes in the column copy
                    # of the matrix, and the row-wise copy the reader left behind has to follow or go
                    ops = list(gen_hist.history(rnd, m, nm, 1, lambda s: 0.55, FILE_KINDS if stream == "filewarm" and k % 2 else WARM_KINDS))
                for op in ops:
                    L += [render(op), "dumpsol p0"]
            solve = rnd.choice(RSOLVES)
        else:
            if m.nrows:
                t = rnd.random()
                if t < 0.4:
                    cs, rs = sf.random_basis(rnd, m)
                elif t < 0.7:
                    cs = "".join("0" if c.lo != NINF else ("2" if c.up != INF else "3") for c in m.cols)
                    rs = "1" * m.nrows
                else:
                    cs = rs = None
                if cs is not None:
                    L += ["load_basis_array p0 %s %s" % (cs or "-", rs)] if rnd.random() < 0.5 else \
                         ["make_basis b1 %d %d %s %s" % (m.ncols, m.nrows, cs or "-", rs), "load_basis p0 b1"]
                else:
                    L += ["write_basis p0 - @W@/h%d.bas" % b, "read_and_load_basis p0 @W@/h%d.bas" % b]
                L.append("dumpsol p0")
            kinds = [("delete_row", 6), ("delete_rows", 2), ("delete_col", 3), ("change_bound", 2), ("change_objcoef", 1), ("add_row", 1)]
            for op in gen_hist.history(rnd, m, nm, rnd.randint(0, 2), lambda s: 0.4, kinds):
                L += [render(op), "dumpsol p0"]
            solve = rnd.choice(SOLVES)
        if not m.wellformed():
            raise run.HarnessError("generator produced an ill-formed model")
        L += [solve, "dumpsol p0"]
        L += fresh_lines(m, cfg, solve, rnd)
    L.append("storecheck p0")
    return run.Case("C05-%s-%d" % (stream, k), L, dict(stream=stream, k=k), files)


def gen_c05_filesense(rnd, stream, k):
    """a sparse LP with 6-14 rows read from an LP or MPS file (the readers leave a row-wise copy of the matrix, logicals included,
    that the simplex uses for z.A whenever z is sparse), then rounds of: re-type one or two rows, re-solve with the rational
    simplex, compare with a fresh build.  Re-typing changes the sign of the row's logical in the column-wise matrix."""
    from checks import iofam
    from vlib import iofmt, gen_lp
    nr, nc = rnd.randint(6, 14), rnd.randint(5, 12)
    m = gen_lp.planted_optimal(rnd, nr, nc, "int", dens=rnd.choice([2.0, 3.0, 4.0]) / nc)
    m.cols = [c for c in m.cols if c.obj != 0 or any(c in r.coef for r in m.rows)]
    if not m.cols:
        m = iofam.io_model(rnd, "noint")
    gen_lp._names(m)
    for c in m.cols:
        c.isint = 0
    cfg = sf.rnd_config(rnd, limits=False, bases=False)
    cfg["entry"] = "opt_primal"
    if rnd.random() < 0.5:
        cfg["pp"], cfg["dp"] = 3, 7      # the defaults
    lp = rnd.random() < 0.5
    text, m = (iofmt.lp_text if lp else iofmt.mps_text)(m, rnd)
    fn = "fs%d.%s" % (k, "lp" if lp else "mps")
    L = ["read_prob p0 @W@/%s %s" % (fn, "LP" if lp else "MPS"), "dump p0"] + sf.param_lines(cfg, "p0")
    L += [rnd.choice(RSOLVES), "dumpsol p0"]
    for b in range(rnd.randint(3, 6)):
        for _ in range(rnd.randint(1, 2)):
            if not m.nrows:
                break
            i = rnd.randrange(m.nrows)
            op = ("change_sense", i, rnd.choice([x for x in "LGE" if x != m.rows[i].sense] or ["L"]))
            m.apply(op)
            L += [render(op), "dumpsol p0"]
        solve = rnd.choice(RSOLVES)
        L += [solve, "dumpsol p0"]
        L += fresh_lines(m, cfg, solve, rnd)
    L.append("storecheck p0")
    return run.Case("C05-%s-%d" % (stream, k), L, dict(stream=stream, k=k), {fn: text.encode()})


def gen_c05_pivotdel(rnd, stream, k):
    """solve, pivot a row's logical into the basis (the stored basis follows, the stored solution stays the one of the old basis),
    delete that row - now basic in the stored basis - and probe the accessors: the deletion may keep the stored solution only if
    it is still optimal without the row.  Pivot-in itself is not a C05 operation: nothing is probed between it and the deletion, and
    QSget_objval (which after a pivot-in hands out a running dual objective) is not judged in these histories."""
    m = gen_hist.base_lp(rnd, rnd.choice([1, 3, 3]))
    cfg = sf.rnd_config(rnd, limits=False, bases=False)
    cfg["entry"] = "opt_primal"
    L = model.script_any(m, "p0", rnd) + sf.param_lines(cfg, "p0")
    L += [rnd.choice(RSOLVES), "dumpsol p0"]
    for _ in range(rnd.randint(1, 2)):
        if m.nrows < 2:
            break
        i = rnd.randrange(m.nrows)
        L.append("pivotin_row p0 1 %d" % i)
        op = ("delete_row", i)
        m.apply(op)
        L += [render(op), "dumpsol p0"]
    L.append("storecheck p0")
    return run.Case("C05-%s-%d" % (stream, k), L, dict(stream=stream, k=k))


def gen_c05(tier, seed, stream, k):
    rnd = run.rng("C05", tier, seed, stream, k)
    if stream in ("warm", "basisload", "filewarm"):
        return gen_c05_warm(rnd, stream, k)
    if stream == "pivotdel":
        return gen_c05_pivotdel(rnd, stream, k)
    if stream == "filesense":
        return gen_c05_filesense(rnd, stream, k)
    nm = gen_hist.Namer()
    m = gen_hist.base_lp(rnd)
    cfg = sf.rnd_config(rnd, limits=False, bases=False)
    cfg["entry"] = "opt_primal"   # forces the rational-simplex iteration bound into the parameter lines
    L = model.script_any(m, "p0", rnd) + sf.param_lines(cfg, "p0")
    kinds = [kw for kw in gen_hist.EDIT_KINDS]
    if stream == "pattern" and k % 3 == 2 and m.ncols:
        # a range row that caps the objective: after the solve its logical is nonbasic at the *upper* end of the range; the row is
        # then re-typed (the stored basis keeps the at-upper mark of the former range row) and the history goes on
        s_ = F(m.objsense)
        coefs = [(j, c.obj if c.obj != 0 else F(1)) for j, c in enumerate(m.cols)][:4]
        cap = F(rnd.randint(-5, 20))
        # MAX (-1): c.x <= cap is the active side -> range [cap - w, cap];  MIN (+1): c.x >= cap active -> range [cap, cap + w]
        wdt = F(rnd.randint(1, 6))
        op = ("add_ranged_row", cap - wdt if s_ < 0 else cap, "R", wdt, nm.row(rnd, 0), coefs)
        m.apply(op)
        L += [render(op), rnd.choice(SOLVES), "dumpsol p0"]
        op = ("change_sense", m.nrows - 1, rnd.choice("LGE"))
        m.apply(op)
        L += [render(op), "dumpsol p0"]
    blocks = rnd.randint(2, 5) if stream != "pattern" else 2
    if rnd.random() < 0.7 and m.nrows:
        L += [rnd.choice(SOLVES), "dumpsol p0"]
    for b in range(blocks):
        nedits = rnd.randint(1, 5)
        if stream == "pattern":
            # dual solve -> add row -> primal solve ; solve -> delete each row in turn
            if b == 0:
                L += ["opt_dual p0", "dumpsol p0"]
                ops = [gen_hist.rnd_edit(rnd, m, nm, 1.0, [("add_row", 1)])]
                solve = "opt_primal p0"
            else:
                L += [rnd.choice(SOLVES), "dumpsol p0"]
                ops = [("delete_row", rnd.randrange(m.nrows))] if m.nrows else []
                solve = rnd.choice(SOLVES)
            for op in ops:
                m.apply(op)
                L += [render(op), "dumpsol p0"]
        else:
            for op in gen_hist.history(rnd, m, nm, nedits, lambda s: 0.55, kinds):
                L += [render(op), "dumpsol p0"]
            solve = rnd.choice(SOLVES)
            t = rnd.random()
            if t < 0.12 and m.nrows:
                cs, rs = sf.random_basis(rnd, m)
                L += ["make_basis b1 %d %d %s %s" % (m.ncols, m.nrows, cs, rs), "load_basis p0 b1"]
            elif t < 0.2:
                L += ["copy p0 p5 viacopy", "free p0", "copy p5 p0 back", "free p5"] + sf.param_lines(cfg, "p0")
        if not m.wellformed():
            raise run.HarnessError("generator produced an ill-formed model")
        L += [solve, "dumpsol p0"]
        L += fresh_lines(m, cfg, solve, rnd)
    L.append("storecheck p0")
    return run.Case("C05-%s-%d" % (stream, k), L, dict(stream=stream, k=k))


def solres(ev, sol):
    st = ev.get("status")
    val = None
    if ev.get("rc") == 0 and st == 1 and sol is not None and sol.get("objval_rc") == 0:
        val = parse(sol["objval"])
    return ev.get("rc"), st, val


def judge_c05(case, res):
    V = []
    C = {}
    if res.crash:
        return [(run.crash_key("C05", res.crash), "process died in %s: %s\n%s" % (res.crash.get("op"), res.crash["kind"], res.crash["text"][:1500]))], {"crash": 1}, False
    if res.timeout:
        return [], {"watchdog_inconclusive": 1}, False
    edited = False       # edit since last solve of p0
    solved_once = False
    lastedit = None
    pend = None          # (kind, rc, st, val, model) of the last p0 solve awaiting dumpsol / fresh partner
    cur = {}             # slot -> [cmd, ev, sol]
    nontriv = False
    try:
        for ln, cmd, slot, op, ev, models in vscript.walk(case.script, res.events):
            m = models.get(slot)
            if cmd == "dump" and m is None and ev.get("rc") == 0 and case.meta.get("stream") in ("filewarm", "filesense"):
                models[slot] = m = model.from_dump(ev)       # what the reader delivered is the reference from here on
                C["fromfile"] = C.get("fromfile", 0) + 1
                continue
            if cmd in vscript.EDITS:
                if ev.get("_model_error"):
                    V.append(("C05|%s|invalid-edit-accepted" % cmd, "line %d `%s` returned 0 but its arguments are invalid" % (ln, case.script[ln][:200])))
                    break
                if ev.get("rc") != 0:
                    V.append(("C05|%s|valid-edit-rejected" % cmd, "line %d `%s` rc=%r" % (ln, case.script[ln][:200], ev.get("rc"))))
                    break
                if slot == "p0":
                    edited = True
                    lastedit = cmd
                    C["edits"] = C.get("edits", 0) + 1
            elif cmd in ("solve_exact", "opt_primal", "opt_dual"):
                kind = cmd if cmd != "solve_exact" else "exact-" + op[1]
                cur[slot] = [kind, ev, None, m.clone() if m is not None else None]
                if slot == "p0":
                    edited = False
                    solved_once = True
                    C["solves"] = C.get("solves", 0) + 1
            elif cmd == "dumpsol":
                if slot in cur and cur[slot][2] is None and not (slot == "p0" and edited):
                    cur[slot][2] = ev
                    kind, sev, _, mm = cur[slot]
                    rc, st, val = solres(sev, ev)
                    # an OPTIMAL (re-)solve must certify for the model as it stands (shares C01's oracle)
                    if rc == 0 and st == 1 and mm is not None:
                        for clause, text in sf.judge_solution(mm, sev, ev, "solve_exact" if kind.startswith("exact") else kind):
                            V.append(("C05|%s|resolve-cert:%s" % (kind, clause), "after edits (last `%s`): %s" % (lastedit, text)))
                    if slot == "p9" and "p0" in cur and cur["p0"][2] is not None:
                        k0, s0, d0, m0 = cur["p0"]
                        r0, st0, v0 = solres(s0, d0)
                        C["compared"] = C.get("compared", 0) + 1
                        nontriv = nontriv or solved_once
                        defin = lambda r, s: r == 0 and s in (1, 2, 3)
                        if defin(r0, st0) and defin(rc, st):
                            if st0 != st:
                                V.append(("C05|%s|resolve-status:%s-fresh:%s" % (k0, sf.ST.get(st0), sf.ST.get(st)),
                                          "re-solve after edits (last `%s`) gave %s, fresh copy gives %s" % (lastedit, sf.ST.get(st0), sf.ST.get(st))))
                            elif st == 1 and v0 != val:
                                V.append(("C05|%s|resolve-value" % k0, "re-solve after edits (last `%s`) value %s, fresh copy %s" % (lastedit, v0, val)))
                            else:
                                C["agree:" + sf.ST.get(st)] = C.get("agree:" + sf.ST.get(st), 0) + 1
                        elif defin(r0, st0) != defin(rc, st):
                            if k0.startswith("exact"):
                                V.append(("C05|%s|definitive-mismatch" % k0, "re-solve (rc %r, %s) vs fresh (rc %r, %s) after `%s`" % (r0, sf.ST.get(st0, st0), rc, sf.ST.get(st, st), lastedit)))
                            else:
                                C["nondefinitive-one-side"] = C.get("nondefinitive-one-side", 0) + 1
                        else:
                            C["nondefinitive-both"] = C.get("nondefinitive-both", 0) + 1
                        # third opinion
                        if defin(r0, st0) and m0 is not None and m0.nrows <= 14 and m0.ncols <= 18:
                            t = refsolve.solve(m0)
                            if t["status"] in ("OPTIMAL", "INFEASIBLE", "UNBOUNDED"):
                                if sf.ST.get(st0) != t["status"] or (st0 == 1 and v0 != t["value"]):
                                    V.append(("C05|%s|resolve-vs-truth" % k0, "re-solve gave %s/%s, certified truth %s/%s" % (sf.ST.get(st0), v0, t["status"], t.get("value"))))
                        del cur["p0"]
                elif slot == "p0" and edited and solved_once:
                    # between an edit and the next solve: accessors must fail or still be exactly optimal
                    C["stale-probes"] = C.get("stale-probes", 0) + 1
                    av = {kk: ev.get(kk + "_rc") == 0 for kk in ("objval", "x", "pi", "slack", "rcv")}
                    if case.meta.get("stream") == "pivotdel":
                        av["objval"] = False
                    if not any(av.values()):
                        C["stale-probes:all-fail"] = C.get("stale-probes:all-fail", 0) + 1
                    elif av["x"] and av["pi"]:
                        nontriv = True
                        C["stale-probes:answered"] = C.get("stale-probes:answered", 0) + 1
                        bad = cert.check_optimal(m, parse(ev["objval"]) if av["objval"] else None, parse_list(ev["x"]), parse_list(ev["pi"]),
                                                 parse_list(ev["rcv"]) if av["rcv"] else None, parse_list(ev["slack"]) if av["slack"] else None) \
                            if (len(ev["x"]) == m.ncols and len(ev["pi"]) == m.nrows) else ["solution has the dimensions of the old problem"]
                        if bad:
                            V.append(("C05|stale|%s" % lastedit, "after `%s` the accessors still answer, but the solution is not optimal for the current LP: %s" % (lastedit, "; ".join(bad[:3])[:700])))
                    else:
                        C["stale-probes:partial"] = C.get("stale-probes:partial", 0) + 1
                        # get_objval also serves the running objective of unfinished solves; it claims optimality only
                        # together with status OPTIMAL
                        if av["objval"] and ev.get("status") == 1 and m.nrows <= 14 and m.ncols <= 18 and m.wellformed():
                            t = refsolve.solve(m)
                            if not (t["status"] == "OPTIMAL" and t["value"] == parse(ev["objval"])):
                                V.append(("C05|stale-objval|%s" % lastedit, "after `%s` get_objval still answers %s but the current LP has %s %s" % (lastedit, ev["objval"], t["status"], t.get("value"))))
            elif cmd == "storecheck" and ev.get("ok") != 1:
                V.append(("C05|storecheck|%s" % ev.get("why"), "internal store inconsistent after history: %s" % ev.get("why")))
            elif cmd == "load_basis" and ev.get("rc") != 0:
                C["load_basis_rejected"] = C.get("load_basis_rejected", 0) + 1
    except ValueError as e:
        raise run.HarnessError(str(e))
    return V, C, nontriv


# ------------------------------------------------------------------ shared chunk / check
def chunk(payload):
    prop, tier, seed, stream, start, count, bindir = (payload[k] for k in ("prop", "tier", "seed", "stream", "start", "count", "bindir"))
    wd = run.workdir("%s-%s-%d" % (prop, stream, start))
    part = dict(evaluations=0, distinct=[], counters={}, violations=[], inconclusive=[], samples=[], max={})
    cnt = part["counters"]
    try:
        gen = gen_c06 if prop == "C06" else gen_c05
        cases = [gen(tier, seed, stream, k) for k in range(start, start + count)]
        res = run.run_cases(os.path.join(bindir, "qsdrive"), cases, wd, batch=8 if stream not in ("long", "matgrow", "namechurn") else 1, timeout=600)
        for c in cases:
            r = res[c.id]
            if prop == "C06":
                V, C, mx = judge_c06(c, r)
                nontriv = C.get("edits", 0) > 0
                for a, b in mx.items():
                    part["max"][a] = max(part["max"].get(a, 0), b)
            else:
                V, C, nontriv = judge_c05(c, r)
            part["evaluations"] += 1
            cnt["stream:" + stream] = cnt.get("stream:" + stream, 0) + 1
            for a, b in C.items():
                cnt[a] = cnt.get(a, 0) + b
            if nontriv:
                part["distinct"].append(run.h(c.script))
            if "watchdog_inconclusive" in C:
                part["inconclusive"].append("watchdog: %s" % c.id)
            for key, what in V:
                part["violations"].append(dict(key=key, what=what, replay=run.save_replay(prop, c, what)))
            if not part["samples"] and nontriv:
                part["samples"].append(dict(case=c.id, script_head=c.script[:25], script_len=len(c.script)))
    finally:
        run.cleanup(wd)
    return part


RULES = {
    "C06": "histories of valid edit calls (all add/delete/change variants incl. named and list forms) generated against the reference model from four base LPs (incl. empty); after every step (long histories: every 12th) the full problem is dumped through the query API and compared with the reference model as exact rationals; `long` histories grow past 100 rows/100 cols/1000 nz and shrink to empty; `matgrow` histories append a column and a row listing it first at every step (free space of the column store walked through every residue; mixed NULL/explicit/default-looking names in list adds); `namechurn` histories add, delete and re-add names in waves so that the name tables' string pool is compacted; ranges of non-range rows must read 0; non-trivial = history with >=1 edit; distinct = hash(script)",
    "C05": "histories: blocks of 1-5 random valid edits (each followed by a probe of every solution accessor) then a solve by one of {QSexact_solver primal/dual, mpq_QSopt_primal, mpq_QSopt_dual}, optionally after loading a random basis or a copy round-trip; streams: rand, pattern (incl. a range row capping the objective that is re-typed after the solve), warm (only factorization-preserving edits between rational-simplex solves, extra free/duplicate/empty columns), basisload (load random/all-slack/file basis, then delete rows/columns), filewarm (problem read from an MPS file, then warm edits; every second history also re-types rows), pivotdel (solve, pivot a row's logical in, delete that row, probe the accessors), filesense (sparse 6-14 row LP read from a file, rounds of re-typing rows and re-solving); the same solve is run on a freshly built copy of the current LP and both are compared with each other and with the certified reference; non-trivial = history with a compared re-solve after a previous solve, or an accessor that still answered after an edit; distinct = hash(script)",
}


def plan(prop, tier):
    q = tier == "quick"
    if prop == "C06":
        return [("short", 4000 if q else 60000), ("long", 96 if q else 1500), ("matgrow", 160 if q else 4000), ("namechurn", 80 if q else 2500)]
    return [("rand", 200 if q else 5000), ("pattern", 40 if q else 600), ("warm", 150 if q else 4000), ("basisload", 100 if q else 3000), ("filewarm", 100 if q else 4000), ("pivotdel", 150 if q else 4000), ("filesense", 150 if q else 4000)]


def run_check(prop, tier, seed):
    b = run.builds(["asan"])
    rep = run.Report(prop, tier, seed, RULES[prop])
    rep.assumptions = ["vlib/model.py encodes the documented meaning of every edit call (DESIGN.md section 5, O-model)",
                       "explicit zeros stored by change_coef(...,0) are tolerated in extractions (not part of the mathematical problem)"]
    payloads = []
    for stream, n in plan(prop, tier):
        step = (2 if stream == "long" else (4 if stream in ("matgrow", "namechurn") else (40 if prop == "C06" else 5)))
        for s in range(0, n, step):
            payloads.append(dict(prop=prop, tier=tier, seed=seed, stream=stream, start=s, count=min(step, n - s), bindir=b["asan"]))
    payloads.sort(key=lambda p: 0 if p["stream"] == "long" else 1)
    for part in run.pool_map("checks.hist", "chunk", payloads):
        rep.merge(part)
    return rep.finish(floor=50)


def replay(prop, path):
    b = run.builds(["asan"])
    case, d = run.load_replay(path)
    wd = run.workdir("replay" + prop)
    try:
        res = run.run_cases(os.path.join(b["asan"], "qsdrive"), [case], wd, batch=1, timeout=600)
        if prop == "C06":
            V, C, _ = judge_c06(case, res[case.id])
        else:
            V, C, _ = judge_c05(case, res[case.id])
    finally:
        run.cleanup(wd)
    for key, what in V:
        print("VIOLATION property=%s replay=%s\n  key: %s\n  what: %s" % (prop, path, key, what[:1500]))
    if not V:
        print("replay: no violation reproduced")
    return 1 if V else 0
