"""C18: everything allocated is released.  One process per case under LeakSanitizer (GMP on malloc, slab off), the driver
frees every object through the documented free functions and calls QSexactClear at teardown; plus in-process create/solve/free
cycles whose live-byte count must not grow."""
import os, re, sys
sys.path.insert(0, os.path.dirname(os.path.dirname(os.path.abspath(__file__))))
from vlib import run, model, gen_lp
from checks import c20, solvefam as sf

_LEAK = re.compile(r"(Direct|Indirect) leak of (\d+) byte\(s\) in (\d+) object\(s\) allocated from:\n((?:\s+#\d+ .*\n)+)")
_FR = re.compile(r"#\d+ 0x[0-9a-f]+ in (\S+) (\S+)")


def parse_leaks(text):
    """-> list of (kind, bytes, objects, [in-library frames]) for leaks with at least one library frame"""
    out = []
    for kind, nb, no, stack in _LEAK.findall(text):
        fr = []
        for fn, path in _FR.findall(stack):
            if "/qsopt_ex/" in path or "/esolver/" in path:
                fn = re.sub(r"\.(part|constprop|isra|cold)\.\d+", "", fn)
                if not fr or fr[-1] != fn:
                    fr.append(fn)
        if fr:
            out.append((kind, int(nb), int(no), fr[:4]))
    return out


def cycle_case(tier, seed, k):
    rnd = run.rng("C18", tier, seed, "cycle", k)
    m = gen_lp.family(rnd, rnd.choice(["small-rand", "planted-opt", "planted-inf", "degenerate", "thin"]))
    cfg = sf.rnd_config(rnd, limits=False, bases=False)
    body = model.script_build(m, "p0") + sf.param_lines(dict(cfg, entry="opt_primal"), "p0")
    body += [rnd.choice(["solve_exact p0 dual b0 xy", "solve_exact p0 primal b0 xy", "opt_primal p0", "opt_dual p0"]), "dumpsol p0 1", "dumpx p0",
             "copy p0 p1 cp", "write_prob p0 @W@/cyc.lp LP", "read_prob p2 @W@/cyc.lp LP", "get_basis p0 b1", "free p0", "free p1", "free p2", "free_basis b0", "free_basis b1", "cycle_mark"]
    L = []
    for _ in range(6):
        L += body
    return run.Case("C18-cycle-%d" % k, L, dict(stream="cycle"))


def chunk(payload):
    tier, seed, stream, start, count, bindir = (payload[k] for k in ("tier", "seed", "stream", "start", "count", "bindir"))
    wd = run.workdir("C18-%s-%d" % (stream, start))
    part = dict(evaluations=0, distinct=[], counters={}, violations=[], inconclusive=[], samples=[])
    cnt = part["counters"]
    try:
        for k in range(start, start + count):
            c = cycle_case(tier, seed, k) if stream == "cycle" else c20.workload("C18", tier, seed, stream, k)
            c.script = [x for x in c.script if not x.startswith("capture ")]
            res = run.run_cases(os.path.join(bindir, "qsdrive"), [c], os.path.join(wd, "c%d" % k), batch=1, timeout=300, leaks=True)
            r = res[c.id]
            part["evaluations"] += 1
            cnt["stream:" + stream] = cnt.get("stream:" + stream, 0) + 1
            if r.crash or r.timeout:
                cnt["crashed-or-hung(ignored here)"] = cnt.get("crashed-or-hung(ignored here)", 0) + 1
                continue
            part["distinct"].append(run.h(c.script, sorted(c.files.items())))
            fails = sum(1 for e in r.events if e.get("rc") not in (0, None))
            cnt["calls-that-failed"] = cnt.get("calls-that-failed", 0) + fails
            cnt["calls"] = cnt.get("calls", 0) + len(r.events)
            if r.leaks:
                seen = set()
                for kind, nb, no, fr in parse_leaks(r.leaks):
                    key = "C18|leak|%s" % ">".join(fr[:3])
                    if key in seen:
                        continue
                    seen.add(key)
                    what = "%s leak of %d bytes in %d objects allocated in %s; last calls: %s" % (kind, nb, no, " < ".join(fr), [e.get("op") for e in r.events[-6:]])
                    part["violations"].append(dict(key=key, what=what, replay=run.save_replay("C18", c, what)))
                if not seen:
                    cnt["lsan-report-without-library-frames"] = cnt.get("lsan-report-without-library-frames", 0) + 1
            if stream == "cycle":
                marks = [e["bytes"] for e in r.evs("cycle_mark")]
                if len(marks) >= 4 and marks[0] >= 0:
                    cnt["cycles"] = cnt.get("cycles", 0) + len(marks)
                    grow = [b - a for a, b in zip(marks[2:], marks[3:])]
                    if any(g > 0 for g in grow) and marks[-1] > marks[2]:
                        what = "live bytes after identical create/solve/free cycles keep growing: %s" % marks
                        part["violations"].append(dict(key="C18|cycle-growth", what=what, replay=run.save_replay("C18", c, what)))
            if not part["samples"]:
                part["samples"].append(dict(case=c.id, script=c.script[:10]))
    finally:
        run.cleanup(wd)
    return part


RULE = ("one process per case with LeakSanitizer on and the GMP slab allocator off; workloads weighted to early exits: valid and mutated LP/MPS/basis files "
        "(truncations, token corruptions) through every reader, the C07 invalid-argument probes, missing/unwritable files, non-OPTIMAL solver outcomes, "
        "histories, copies, basis round trips; at teardown the driver frees every object and calls QSexactClear; leaks are keyed by the allocating library "
        "frames; plus 6 identical create/solve/copy/write/read/free cycles per case with a live-byte probe after each; non-trivial = case that ran to teardown; distinct = hash(script, files)")


def run_check(prop, tier, seed):
    b = run.builds(["asan"])
    rep = run.Report(prop, tier, seed, RULE)
    q = tier == "quick"
    plan = [("solve", 260 if q else 6000), ("hist", 60 if q else 2000), ("probe", 500 if q else 2885), ("file-valid", 200 if q else 5000), ("file-mutant", 1400 if q else 40000),
            ("basis-mutant", 400 if q else 8000), ("missing", 150 if q else 1500), ("basis", 150 if q else 3000), ("copy", 40 if q else 1500), ("verdict", 120 if q else 3000), ("cycle", 40 if q else 800)]
    payloads = []
    for stream, n in plan:
        step = 5 if stream in ("hist", "copy", "solve", "cycle", "verdict") else 25
        for s in range(0, n, step):
            payloads.append(dict(tier=tier, seed=seed, stream=stream, start=s, count=min(step, n - s), bindir=b["asan"]))
    for part in run.pool_map("checks.c18", "chunk", payloads):
        rep.merge(part)
    return rep.finish(floor=500)


def replay(prop, path):
    b = run.builds(["asan"])
    case, d = run.load_replay(path)
    wd = run.workdir("replayC18")
    V = []
    try:
        res = run.run_cases(os.path.join(b["asan"], "qsdrive"), [case], wd, batch=1, leaks=True)
        r = res[case.id]
        if r.leaks:
            for kind, nb, no, fr in parse_leaks(r.leaks):
                V.append(("C18|leak|%s" % ">".join(fr[:3]), "%s leak of %d bytes" % (kind, nb)))
    finally:
        run.cleanup(wd)
    for key, what in V:
        print("VIOLATION property=C18 replay=%s\n  key: %s\n  what: %s" % (path, key, what[:1500]))
    if not V:
        print("replay: no violation reproduced")
    return 1 if V else 0
