"""C14: a basis file reads back as the same basis; writing the problem's own basis does not consume it."""
import os, sys
sys.path.insert(0, os.path.dirname(os.path.dirname(os.path.abspath(__file__))))
from vlib import run, gen_lp, model, iofmt, script as vscript
from vlib.rat import isinf
from checks import solvefam as sf, iofam


def gen_reload_case(rnd, k):
    """"loading it reproduces the same basic solution", on a problem that has meanwhile been solved at another basis: with a zero
    objective every primal feasible basis is optimal, so a solve started from a loaded feasible basis must stay on it.
    A -> solve -> write file; B -> solve; read_and_load(file) (or read_basis + load_basis) -> solve: the solution must be A's."""
    from checks import c12
    from vlib import basis as vbasis
    for attempt in range(30):
        m = c12.small_lp(rnd)
        for c in m.cols:
            c.obj = 0 * c.obj
        if not m.nrows or not m.ncols:
            continue
        feas = []
        for cs, rs in vbasis.enumerate_bases(m, rnd, limit=None)[:400]:
            e = vbasis.evaluate(m, cs, rs)
            if e.get("valid") and not e.get("singular") and e.get("pfeas"):
                feas.append((cs, rs, e["x"]))
        pairs = [(a, b_) for a in feas for b_ in feas if a[2] != b_[2]]
        if pairs:
            break
    else:
        return None
    A, Bb = rnd.choice(pairs)
    solve = rnd.choice(["opt_dual p0", "opt_dual p0", "opt_primal p0"])
    f1 = "@W@/A.bas" + rnd.choice(["", "", ".gz"])
    L = model.script_build(m, "p0") + ["set_param p0 5 3000"]
    L += ["load_basis_array p0 %s %s" % (A[0], A[1]), solve, "dumpsol p0", "write_basis p0 - " + f1,
          "load_basis_array p0 %s %s" % (Bb[0], Bb[1]), solve, "dumpsol p0"]
    if rnd.random() < 0.6:
        L += ["read_and_load_basis p0 " + f1]
    else:
        L += ["read_basis p0 " + f1 + " b1", "load_basis p0 b1"]
    L += [solve, "dumpsol p0", "get_basis_array p0"]
    return run.Case("C14-%d" % k, L, dict(mode="reload", A=[A[0], A[1], [str(v) for v in A[2]]], B=[Bb[0], Bb[1], [str(v) for v in Bb[2]]])), m


def gen_case(tier, seed, k):
    rnd = run.rng("C14", tier, seed, "bas", k)
    if k % 4 == 3:
        r = gen_reload_case(rnd, k)
        if r is not None:
            return r
    m = iofam.io_model(rnd, "noint")
    for c in m.cols:
        c.isint = 0
    L = model.script_any(m, "p0", rnd) + ["set_param p0 5 3000"]
    if rnd.random() < 0.35:
        # deletions interleaved with name lookups before the basis is written and read: the basis file is resolved by name, so the
        # name tables must follow every renumbering
        for _ in range(rnd.randint(1, 3)):
            if m.ncols > 2 and rnd.random() < 0.6:
                op = ("delete_cols", rnd.sample(range(m.ncols - 1), rnd.randint(1, min(2, m.ncols - 2))))
                look = "get_column_index p0 %s" % m.cols[-1].name
            elif m.nrows > 2:
                op = ("delete_rows", rnd.sample(range(m.nrows - 1), rnd.randint(1, min(2, m.nrows - 2))))
                look = "get_row_index p0 %s" % m.rows[-1].name
            else:
                break
            m.apply(op)
            L += [model.render(op, "p0"), look]
            if rnd.random() < 0.5 and m.ncols > 1:
                # now a single deletion in the middle
                j = rnd.randrange(m.ncols - 1)
                op = ("delete_col", j)
                m.apply(op)
                L += [model.render(op, "p0"), "get_column_index p0 %s" % m.cols[-1].name]
    mode = rnd.choice(["solver", "solver", "random", "random", "own"])
    ext = rnd.choice(["", "", ".gz", ".bz2"])
    f1 = "@W@/b1.bas" + ext
    if mode == "solver":
        L += [rnd.choice(["solve_exact p0 dual b0 -", "solve_exact p0 primal b0 -"])]
        if rnd.random() < 0.5:
            L += [rnd.choice(["opt_primal p0", "opt_dual p0"]), "get_basis p0 b0"]
        L += ["dump_basis b0", "write_basis p0 b0 " + f1, "read_basis p0 " + f1 + " b1", "basis_dualstatus p0 b0", "basis_dualstatus p0 b1"]
    elif mode == "random":
        cs, rs = sf.random_basis(rnd, m)
        L += ["make_basis b0 %d %d %s %s" % (m.ncols, m.nrows, cs, rs), "dump_basis b0", "write_basis p0 b0 " + f1,
              "read_basis p0 " + f1 + " b1", "basis_dualstatus p0 b0", "basis_dualstatus p0 b1"]
        if rnd.random() < 0.5:
            L += ["read_and_load_basis p0 " + f1, "get_basis_array p0"]
    else:
        # the problem's own basis: write with B == NULL, then keep using the problem
        L += [rnd.choice(["opt_primal p0", "opt_dual p0"])]
        if rnd.random() < 0.5 and m.nrows:
            # another basis is loaded after the solve: the stored basis is now that one, the working basis inside the simplex
            # still the solver's; what is written (and what stays stored) has to be the loaded one
            cs, rs = sf.random_basis(rnd, m)
            L += [rnd.choice(["load_basis_array p0 %s %s" % (cs or "-", rs), "make_basis b5 %d %d %s %s\nload_basis p0 b5" % (m.ncols, m.nrows, cs or "-", rs)])]
            L = [x for ln in L for x in ln.split("\n")]
        L += ["get_basis_array p0", "write_basis p0 - " + f1, "get_basis_array p0", "read_basis p0 " + f1 + " b1"]
        for _ in range(rnd.randint(1, 3)):
            L.append(rnd.choice(["opt_dual p0", "opt_primal p0", "tableau p0", "write_basis p0 - @W@/b2.bas", "get_basis p0 b3", "dumpsol p0", "roundtrip_basis_norms p0"]))
        L += ["get_basis_array p0", "write_basis p0 - @W@/b3.bas", "read_basis p0 @W@/b3.bas b4"]
    return run.Case("C14-%d" % k, L, dict(mode=mode)), m


def same_basis(m, c0, r0, c1, r1):
    """documented equivalence: same basic set, same at-upper set; nonbasic free columns may be '3' or '0'"""
    bad = []
    if len(c0) != len(c1) or len(r0) != len(r1):
        return ["sizes differ"]
    for j, (a, b) in enumerate(zip(c0, c1)):
        if (a == "1") != (b == "1"):
            bad.append("column %d basic flag %s -> %s" % (j, a, b))
        elif a != "1" and (a == "2") != (b == "2"):
            bad.append("column %d at-upper flag %s -> %s" % (j, a, b))
        elif a != "1" and a != b and not (set([a, b]) == {"0", "3"} and isinf(m.cols[j].lo)):
            bad.append("column %d status %s -> %s" % (j, a, b))
    for i, (a, b) in enumerate(zip(r0, r1)):
        if (a == "1") != (b == "1"):
            bad.append("row %d basic flag %s -> %s" % (i, a, b))
        elif a != "1" and (a == "2") != (b == "2") and m.rows[i].sense == "R":
            bad.append("row %d at-upper flag %s -> %s" % (i, a, b))
    return bad


def judge(case, res, m):
    V, C = [], {"mode:" + case.meta["mode"]: 1}
    if res.crash:
        return [(run.crash_key("C14", res.crash), "process died in %s: %s\n%s" % (res.crash.get("op"), res.crash["kind"], res.crash["text"][:1500]))], {"crash": 1}, False
    if res.timeout:
        return [], {"watchdog_inconclusive": 1}, False
    mode = case.meta["mode"]
    wr = res.evs("write_basis")
    rd = res.evs("read_basis")
    if mode == "reload":
        sols = res.evs("dumpsol")
        xa, xb = case.meta["A"][2], case.meta["B"][2]
        if len(sols) != 3 or wr[0].get("rc") != 0:
            return [("C14|reload|setup-failed", "write rc=%r, %d solutions" % (wr[0].get("rc") if wr else None, len(sols)))], C, True
        got = [sv.get("x") if sv.get("x_rc") == 0 and sv.get("status") == 1 else None for sv in sols]
        if got[0] != xa or got[1] != xb:
            # the premise (a solve started from an optimal basis stays on it) does not hold on this instance: nothing to conclude
            C["reload:premise-not-met"] = 1
            return V, C, False
        C["reload:compared"] = 1
        if got[2] != xa:
            V.append(("C14|reload|solution-of-another-basis", "basis A c=%s r=%s (x=%s) written, problem moved to B (x=%s), file loaded back and solved: x=%s" % (
                case.meta["A"][0], case.meta["A"][1], xa, xb, got[2])))
        # the basis reported after the solve may legitimately be an equivalent one (e.g. a range-0 row reported at lower instead
        # of at upper): the property speaks of the basic solution, so only that is judged; the rest is counted
        ga = res.ev("get_basis_array")
        if ga is not None and ga.get("rc") == 0 and same_basis(m, case.meta["A"][0], case.meta["A"][1], ga["cstat"], ga["rstat"]):
            C["reload:equivalent-basis-reported"] = 1
        return V, C, True
    if mode in ("solver", "random"):
        b0 = res.ev("dump_basis")
        if b0 is None or b0.get("rc") != 0 or not b0["basis"] or b0["basis"]["nstruct"] != m.ncols or b0["basis"]["nrows"] != m.nrows:
            return [], {"no-basis-from-solver": 1}, False
        B0 = b0["basis"]
        if wr[0].get("rc") != 0:
            return [("C14|write_basis|failed", "QSwrite_basis refused a valid basis c=%s r=%s logs=%s" % (B0["cstat"], B0["rstat"], wr[0].get("logs", [])[:3]))], C, True
        if rd[0].get("rc") != 0:
            return [("C14|read_basis|own-output-rejected", "QSread_basis rejected the file written for c=%s r=%s: %s" % (B0["cstat"], B0["rstat"], rd[0].get("logs", [])[:4]))], C, True
        B1 = rd[0]["basis"]
        bad = same_basis(m, B0["cstat"], B0["rstat"], B1["cstat"], B1["rstat"])
        if bad:
            V.append(("C14|roundtrip|%s" % iofam.hist_cls(bad[0]), "basis c=%s r=%s read back as c=%s r=%s: %s" % (B0["cstat"], B0["rstat"], B1["cstat"], B1["rstat"], bad[:3])))
        ds = res.evs("basis_dualstatus")
        if len(ds) == 2 and ds[0].get("rc") == 0 and ds[1].get("rc") == 0:
            if (ds[0]["result"], ds[0]["dobjval"] if ds[0]["result"] else None) != (ds[1]["result"], ds[1]["dobjval"] if ds[1]["result"] else None):
                V.append(("C14|roundtrip|basic-solution-differs", "dual status/objective of the basis %s/%s, of the re-read basis %s/%s" % (ds[0]["result"], ds[0]["dobjval"], ds[1]["result"], ds[1]["dobjval"])))
            C["dualstatus-compared"] = 1
        rl = res.ev("read_and_load_basis")
        if rl is not None:
            ga = res.ev("get_basis_array")
            if rl.get("rc") != 0 or ga is None or ga.get("rc") != 0:
                V.append(("C14|read_and_load_basis|failed", "read_and_load_basis rc=%r" % rl.get("rc")))
            else:
                bad = same_basis(m, B0["cstat"], B0["rstat"], ga["cstat"], ga["rstat"])
                if bad:
                    V.append(("C14|read_and_load_basis|differs", "loaded basis differs: %s" % bad[:3]))
        return V, C, True
    # own basis
    ga = res.evs("get_basis_array")
    if not ga or ga[0].get("rc") != 0:
        return [], {"no-basis-after-solve": 1}, False
    A = ga[0]
    if wr[0].get("rc") != 0:
        return [("C14|write_basis-own|failed", "QSwrite_basis(p, NULL) failed: %s" % wr[0].get("logs", [])[:3])], C, True
    if ga[1].get("rc") != 0 or (ga[1]["cstat"], ga[1]["rstat"]) != (A["cstat"], A["rstat"]):
        V.append(("C14|write_basis-own|basis-consumed", "basis before writing c=%s r=%s, afterwards rc=%r c=%s r=%s" % (A["cstat"], A["rstat"], ga[1].get("rc"), ga[1].get("cstat"), ga[1].get("rstat"))))
        return V, C, True
    if rd[0].get("rc") != 0:
        V.append(("C14|read_basis|own-output-rejected", "file of the problem's own basis rejected: %s" % rd[0].get("logs", [])[:4]))
    else:
        bad = same_basis(m, A["cstat"], A["rstat"], rd[0]["basis"]["cstat"], rd[0]["basis"]["rstat"])
        if bad:
            V.append(("C14|roundtrip-own|%s" % iofam.hist_cls(bad[0]), "own basis c=%s r=%s read back as c=%s r=%s" % (A["cstat"], A["rstat"], rd[0]["basis"]["cstat"], rd[0]["basis"]["rstat"])))
    # later calls keep working: the final write/read must succeed and agree with the final basis
    if ga[-1].get("rc") != 0:
        V.append(("C14|write_basis-own|later-calls-fail", "get_basis_array fails after further calls"))
    elif wr[-1].get("rc") != 0 or rd[-1].get("rc") != 0:
        V.append(("C14|write_basis-own|later-calls-fail", "second write/read of the own basis failed (write rc=%r read rc=%r)" % (wr[-1].get("rc"), rd[-1].get("rc"))))
    else:
        bad = same_basis(m, ga[-1]["cstat"], ga[-1]["rstat"], rd[-1]["basis"]["cstat"], rd[-1]["basis"]["rstat"])
        if bad:
            V.append(("C14|roundtrip-own-later|%s" % iofam.hist_cls(bad[0]), "after further calls: %s" % bad[:3]))
    return V, C, True


def chunk(payload):
    tier, seed, start, count, bindir = (payload[k] for k in ("tier", "seed", "start", "count", "bindir"))
    wd = run.workdir("C14-%d" % start)
    part = dict(evaluations=0, distinct=[], counters={}, violations=[], inconclusive=[], samples=[])
    cnt = part["counters"]
    try:
        cases, ms = [], {}
        for k in range(start, start + count):
            c, m = gen_case(tier, seed, k)
            cases.append(c)
            ms[c.id] = m
        res = run.run_cases(os.path.join(bindir, "qsdrive"), cases, wd, batch=15, timeout=300)
        for c in cases:
            V, C, nontriv = judge(c, res[c.id], ms[c.id])
            part["evaluations"] += 1
            for a, b in C.items():
                cnt[a] = cnt.get(a, 0) + b
            if nontriv:
                part["distinct"].append(run.h(c.script))
            if "watchdog_inconclusive" in C:
                part["inconclusive"].append("watchdog: %s" % c.id)
            for key, what in V:
                c.meta["k"] = int(c.id.split("-")[-1])
                part["violations"].append(dict(key=key, what=what, replay=run.save_replay("C14", c, what)))
            if not part["samples"] and nontriv:
                part["samples"].append(dict(case=c.id, script=c.script[-10:]))
    finally:
        run.cleanup(wd)
    return part


RULE = ("problems with valid LP names x bases {returned by QSexact_solver / mpq_QSopt_primal/dual; random type-consistent bases incl. ranged rows at upper and free "
        "columns; the problem's own basis written with B=NULL}: written with QSwrite_basis (plain/.gz/.bz2), read back with QSread_basis / "
        "QSread_and_load_basis and compared (same basic set, same at-upper set, free<->lower allowed for free columns), exact dual status and dual objective of "
        "both bases compared; own-basis cases (half of them after loading another basis on top of the solver's) continue with solves, tableau queries and a second write/read; `reload` cases: zero objective (every primal-feasible basis optimal), basis A solved and written, problem moved to basis B with another solution, file loaded back (QSread_and_load_basis or QSread_basis+QSload_basis) and solved: the solution must be A's; own-basis mode also runs the get/load basis+row-norms round trip; non-trivial = a basis was available; distinct = hash(script)")


def run_check(prop, tier, seed):
    b = run.builds(["asan"])
    rep = run.Report(prop, tier, seed, RULE)
    n = 900 if tier == "quick" else 20000
    payloads = [dict(tier=tier, seed=seed, start=s, count=min(15, n - s), bindir=b["asan"]) for s in range(0, n, 15)]
    for part in run.pool_map("checks.c14", "chunk", payloads):
        rep.merge(part)
    return rep.finish(floor=100)


def replay(prop, path):
    b = run.builds(["asan"])
    case, d = run.load_replay(path)
    k = d.get("meta", {}).get("k")
    m = None
    for tier in ("quick", "thorough"):
        for seed in [int(os.environ.get("VERIF_SEED", "1"))] + list(range(0, 12)):
            c, mm = gen_case(tier, seed, k)
            if c.script == case.script:
                m = mm
                break
        if m:
            break
    if m is None:
        raise run.HarnessError("cannot regenerate case of %s" % path)
    wd = run.workdir("replayC14")
    try:
        res = run.run_cases(os.path.join(b["asan"], "qsdrive"), [case], wd, batch=1)
        V, C, _ = judge(case, res[case.id], m)
    finally:
        run.cleanup(wd)
    for key, what in V:
        print("VIOLATION property=C14 replay=%s\n  key: %s\n  what: %s" % (path, key, what[:1500]))
    if not V:
        print("replay: no violation reproduced")
    return 1 if V else 0
