#!/usr/bin/env python3
"""mutest.py <patch.diff> <Cnn> [<Cnn> ...] [--tier quick] [--seed N]
Applies a seeded change to /repo, runs the given checks, and restores /repo (always).  Prints which checks fired."""
import argparse, json, os, subprocess, sys, time
V = os.path.dirname(os.path.dirname(os.path.abspath(__file__)))


def main():
    ap = argparse.ArgumentParser()
    ap.add_argument("patch")
    ap.add_argument("props", nargs="+")
    ap.add_argument("--tier", default="quick")
    ap.add_argument("--seed", default="1")
    a = ap.parse_args()
    st = subprocess.run(["git", "-C", "/repo", "status", "--porcelain", "--untracked-files=no"], capture_output=True, text=True).stdout.strip()
    if st:
        sys.exit("refusing: /repo has uncommitted tracked changes:\n" + st)
    r = subprocess.run(["git", "-C", "/repo", "apply", "--whitespace=nowarn", os.path.abspath(a.patch)], capture_output=True, text=True)
    if r.returncode:
        sys.exit("patch does not apply: " + r.stderr)
    res = {}
    try:
        for p in a.props:
            t0 = time.time()
            env = dict(os.environ, VERIF_SEED=a.seed, VERIF_DUMP="/tmp/mutest-%s.keys" % p, VERIF_EVIDENCE_DIR="/tmp/mutest-evidence")
            q = subprocess.run([sys.executable, os.path.join(V, "checks", "check.py"), p, "--tier", a.tier], cwd=V, env=env, capture_output=True, text=True)
            keys = []
            try:
                keys = [json.loads(l)["key"] for l in open("/tmp/mutest-%s.keys" % p)]
                os.unlink("/tmp/mutest-%s.keys" % p)
            except OSError:
                pass
            res[p] = dict(exit=q.returncode, wall=round(time.time() - t0, 1), keys=keys[:8])
            last = [l for l in q.stdout.split("\n") if " seed=" in l or "HARNESS" in l or "INCONCL" in l]
            print("%s exit=%d wall=%.0fs %s" % (p, q.returncode, time.time() - t0, "FIRED" if q.returncode == 1 else "silent" if q.returncode == 0 else "INCONCLUSIVE/HARNESS"))
            for l in last[:3]:
                print("    " + l[:200])
            for k in keys[:5]:
                print("    key: " + k[:160])
    finally:
        subprocess.run(["git", "-C", "/repo", "checkout", "--", "."], check=True)
    print(json.dumps(res))
    meta = os.path.join(os.path.dirname(os.path.abspath(a.patch)), "meta.json")
    if os.path.exists(meta):
        m = json.load(open(meta))
        for p, r in res.items():
            m.setdefault("checks_run", []).append(dict(check=p, tier=a.tier, seed=a.seed, fired=r["exit"] == 1, exit=r["exit"],
                                                        wall_s=r["wall"], keys=r["keys"][:4]))
        json.dump(m, open(meta, "w"), indent=1)


if __name__ == "__main__":
    main()
