#!/usr/bin/env python3
"""save_seeded.py <seed-id> <property> <outdir> <needs...>  -- store a confirmed seeded change under /verif/seeded/<seed-id>/"""
import json, os, shutil, sys
V = os.path.dirname(os.path.dirname(os.path.abspath(__file__)))
sid, prop, out = sys.argv[1:4]
needs = " ".join(sys.argv[4:])
d = os.path.join(V, "seeded", sid)
os.makedirs(d, exist_ok=True)
for n in os.listdir(out):
    if n in ("patch.diff", "run_demo.sh", "notes.md") or n.startswith("demo") and n.endswith((".c", ".sh", ".py", ".lp", ".mps", ".txt", ".h")):
        shutil.copy(os.path.join(out, n), os.path.join(d, n))
conf = open(os.path.join(out, "confirm.txt")).read().strip() if os.path.exists(os.path.join(out, "confirm.txt")) else ""
meta = dict(id=sid, property=prop, origin="fresh sub-agent given only the property text and a scratch worktree",
            needs_to_manifest=needs,
            confirmed=dict(how="tools/confirm_mutant.sh: patch re-applied to a pristine scratch worktree of /repo HEAD, make -j16, "
                               "make check, run_demo.sh on the changed and on a clean worktree", result=conf),
            checks_run=[])
mp = os.path.join(d, "meta.json")
if os.path.exists(mp):
    old = json.load(open(mp)); meta["checks_run"] = old.get("checks_run", [])
json.dump(meta, open(mp, "w"), indent=1)
print("saved", d)
