#!/usr/bin/env python3
"""writes /verif/MANIFEST.json from the table below (single source of truth for what is claimed)"""
import json, os, subprocess
V = os.path.dirname(os.path.dirname(os.path.abspath(__file__)))

def repo_commits(prefix):
    out = subprocess.run(["git", "-C", "/repo", "log", "--format=%h %s"], capture_output=True, text=True).stdout.splitlines()
    return [l.split()[0] for l in out if l.split(" ", 1)[1].startswith(prefix)]

CHECKS = {
 "C01": dict(tech="runtime monitoring: sanitized library driven by seeded LP x configuration workloads; offline exact certificate oracle (Fractions) over the API event log",
             text="every OPTIMAL answer observed (out-parameters and all accessors) is checked against a complete exact optimality certificate; held on the explored LP families x configurations only",
             note="trusted: Python Fraction arithmetic, vlib/cert.py, the qsdrive event log; H1 hook events only label evidence"),
 "C02": dict(tech="runtime monitoring: sanitized library on infeasible/thin-margin LP workloads; offline exact Farkas oracle and certified reference truth",
             text="every INFEASIBLE answer observed is checked exactly (Farkas intervals disjoint, no infinite side used) and against certified feasibility truth",
             note="trusted: vlib/cert.py, vlib/refsolve.py (self-certifying)"),
 "C03": dict(tech="runtime monitoring: differential check against a self-certifying exact reference simplex (Bland, Fractions) incl. a sampled/enumerated tiny family",
             text="status and exact optimal value compared with certified truth for every generated well-formed LP of moderate size",
             note="reach bounded by the reference solver size (<=16x22) and moderate bit sizes"),
 "C04": dict(tech="runtime monitoring: metamorphic comparison of many drives of one LP (entry point x pricing x scaling x precision x warm start x repeated solves) under sanitizers",
             text="all definitive (status, exact value) pairs observed for the same LP must coincide; explored groups only",
             note="non-definitive stops (iteration limits, UNSOLVED of the pure rational simplex) are excluded as the statement allows"),
 "C05": dict(tech="runtime monitoring: seeded edit/solve histories on the sanitized library; each re-solve compared with a fresh copy built in the same process, with the certified reference, and every accessor probed after every edit against the exact certificate oracle",
             text="re-solve == fresh solve and no stale solution, for the explored histories (blocks of 1-5 edits, 4 solvers, basis loads, copy round trips)",
             note="trusted: reference model semantics (vlib/model.py), oracles; rational simplex runs are bounded to 3000 iterations and limit stops are not compared"),
 "C06": dict(tech="runtime monitoring: model-conformance checking of edit histories (reference LP store in Python) with full query-API dumps after every step plus an internal sparse-store walker",
             text="every query function compared with the reference model as exact rationals after every edit of each explored history, incl. histories crossing the 100 rows/100 cols/1000 nz growth thresholds and shrinking to empty",
             note="explicit zeros stored by change_coef(..,0) are tolerated; refusals of zero-length array queries are tolerated"),
 "C07": dict(tech="runtime monitoring by fault enumeration: every (public function x invalid argument x lifecycle state) probe of a fixed table executed in its own sanitized process with full before/after state dumps",
             text="each of ~2900 enumerated invalid calls must return non-zero, raise no ASan/UBSan report and leave problem, basis, stored solution and status byte-identical in the query-API dump",
             level="fault_enumeration",
             note="the probe table (checks/c07.py) is the space enumerated; arguments that the API documents as lenient (objsense of QScreate_prob) are not probed"),
 "C08": dict(tech="runtime monitoring: API-built and file-read problems pushed through QSwrite_prob(LP, plain/.gz/.bz2) -> QSread_prob under sanitizers; name-based exact comparison with the reference model and exact solves of both problems",
             text="LP write->read round trips of the explored problems reproduce the problem (ranged rows as two halves, empty rows dropped) and its exact status/value",
             note="problems whose names the writer must repair are compared name-free (multisets) and by solve"),
 "C09": dict(tech="runtime monitoring: as C08 for MPS incl. native RANGES, plus LP->MPS->LP and MPS->LP->MPS chains, under sanitizers",
             text="MPS write->read and mixed-format chains of the explored problems reproduce the problem exactly (R rows with same rhs/range)",
             note="same trusted base as C08"),
 "C10": dict(tech="runtime monitoring: independent grammar-driven LP/MPS text generator (all lexical choices randomised) -> QSread_prob/QSget_prob under sanitizers -> exact comparison with the generating model",
             text="every generated syntactically valid file is accepted and read as exactly the rational problem it denotes (20k files per quick run)",
             note="the generator emits only documented constructs; free-format MPS bound-set names are always explicit (blank names are ambiguous on FR/MI/PL/BV lines)"),
 "C14": dict(tech="runtime monitoring: basis write/read round trips (solver bases, random type-consistent bases, the problem's own basis) under sanitizers with exact verdict comparison",
             text="QSwrite_basis -> QSread_basis/QSread_and_load_basis reproduces basic set and at-upper set and the exact dual status/objective; writing the own basis leaves it usable (explored problems/bases)",
             note="names restricted to valid LP names as the statement says"),
 "C16": dict(tech="runtime monitoring: copy/edit/solve/free interleavings on original and copies under ASan with per-object model conformance; entry-by-entry comparison of the dbl/mpf conversions with exact rationals",
             text="copies equal the original in the full query-API dump incl. parameters; objects never influence each other; conversions within one ulp (explored cases)",
             note="an objective name missing in the original may be defaulted in the copy"),
 "C18": dict(tech="runtime monitoring: LeakSanitizer, one process per case, GMP slab allocator off; early-exit workloads (mutated files, invalid arguments, non-optimal outcomes) + live-byte probe over repeated create/solve/free cycles",
             text="no library allocation stays unreleased after every object is freed and QSexactClear was called, on the explored successful and failing call sequences",
             note="leaks are keyed by allocating library frames; crashing cases are left to C11/C17"),
 "C20": dict(tech="runtime monitoring: fd 1/2 redirected to capture files sampled after every library call while a log handler is installed; workloads of all other checks weighted to failure paths",
             text="no byte reached stdout/stderr during ~60k observed library calls (8k of which produced handler messages) per quick run",
             note="calls whose contract is to write to stdout (NULL filename writers) are not issued"),
 "C12": dict(tech="runtime monitoring: complete enumeration of type-consistent bases of small LPs with an exact Fraction evaluation of each basis as oracle for the three verdict functions; bases returned by the exact solver re-evaluated exactly, re-verified and warm-started",
             text="QSexact_basis_optimalstatus/_dualstatus/QSexact_verify agree with the exact basic solution for every enumerated non-singular basis; every returned OPTIMAL basis is exactly optimal (explored LPs)",
             note="singular bases are only counted; QSexact_verify with prestep may also accept an exactly verified optimum reached from the basis (documented behaviour)"),
 "C13": dict(tech="runtime monitoring: exact multiply-back of every B^-1 / tableau row after arbitrary iteration counts and pivotins (hook H2 counts updates since refactor), plus a component driver for factor_mpq.h checked against a Python copy of the matrix",
             text="all observed LU solves satisfy their systems exactly (up to 122 accumulated updates at API level) and singular matrices/updates are reported, on the explored matrices and runs",
             note="trusted: Fraction arithmetic, the driver's dump of the logical coefficients read from the store"),
 "C19": dict(tech="runtime monitoring: the built esolver binary (ASan and plain) run on generated and mutated files x options; solution/basis files parsed and judged by the exact certificate oracle and the certified reference",
             text="exit status, status line, listed values and -b/-B round trip are correct for the explored files/options; malformed files never crash it",
             note="zeros are implied for unlisted names; rows must be named in the input"),
 "C11": dict(tech="runtime monitoring: coverage-guided fuzzing (libFuzzer, clang ASan+UBSan) of the LP/MPS/basis readers with grammar-derived seeds and structured mutants, post-read consistency oracle, exit() interposition; plus the same corpus as real plain/.gz/.bz2 files through the gcc-sanitized driver",
             text="no crash, hang, exit or inconsistent result on ~100k fuzz executions + 1.5k file cases per quick run (6M+ in thorough)",
             note="exponents of more than 4 digits are skipped as the statement says; reach = what the fuzzer generates"),
 "C15": dict(tech="runtime monitoring: metamorphic testing (10 equivalence transformations, random compositions) of planted LPs with 40-130 rows (100-400 in thorough, beyond the reference solver) under sanitizers, with the exact certificate oracle on every OPTIMAL",
             text="equivalent formulations gave identical statuses and exactly corresponding optimal values in all explored groups",
             note="value correspondence is an exact affine map tracked with the transformations"),
 "C17": dict(tech="runtime monitoring: ASan+UBSan (GMP on malloc) over a stratified corpus of all other checks' scripts; valgrind memcheck --track-origins on the slab-allocator build; 7-way re-execution with perturbed allocator contents / ASLR / environment and byte comparison of transcripts and written files",
             text="no sanitizer or memcheck report and byte-identical results on the explored corpus",
             note="MemorySanitizer is not used (uninstrumented libgmp/libz/libbz2); memcheck + perturbation stand in for it"),
}
ENGINES = [
 dict(name="fuzz_read", path="harness/fuzz_read.c", serves_properties=["C11"], kind_free_text="libFuzzer target for the LP/MPS/basis readers (clang -fsanitize=fuzzer,address,undefined)"),
 dict(name="ludrive", path="harness/ludrive.c", serves_properties=["C13"], kind_free_text="component driver for the sparse LU code (factor_mpq.h): factor, ftran, btran, column replacement"),
 dict(name="qsdrive", path="harness/qsdrive.c", serves_properties=sorted(CHECKS), kind_free_text="script interpreter over the public API writing a before/after event log; built per flavour (gcc ASan+UBSan, plain) from /repo's working tree by build/mkbuild.py"),
 dict(name="oracles", path="vlib/", serves_properties=sorted(CHECKS), kind_free_text="exact Python oracles: reference LP store, certificate checkers, self-certifying reference simplex, generators, process pool / triage / known-findings / evidence"),
]
NA = []
allp = [json.loads(l)["id"] for l in open(os.path.join(V, "properties.jsonl"))]
for p in allp:
    if p not in CHECKS:
        NA.append(dict(property_id=p, reason="check not yet registered in this commit (machinery under construction); the property is in scope of the technique, see DESIGN.md"))

m = dict(version=1,
         setup_cmd="python3 build/mkbuild.py --warm",
         hooks=dict(guard="QSOPT_EX_VERIF",
                    enable="build/mkbuild.py compiles /repo's working tree with -DQSOPT_EX_VERIF (flavours asan, plain, fuzz); the harness installs QSverif_hook",
                    baseline_off_cmd="make -C /repo check",
                    source_commits=repo_commits("verif hooks"),
                    add_only=True),
         engines=ENGINES,
         checks=[dict(property_id=p, quick_cmd="python3 checks/check.py %s --tier quick" % p,
                      thorough_cmd="python3 checks/check.py %s --tier thorough" % p,
                      evidence_file="/verif/evidence/%s.json" % p,
                      replay_cmd_template="python3 checks/check.py %s --replay {path}" % p,
                      engine="qsdrive",
                      level_claimed=dict(category=c.get("level","exploration"), text=c["text"], design_ref="DESIGN.md section 6 (%s)" % p),
                      level_note=c["note"], technique=c["tech"]) for p, c in sorted(CHECKS.items())],
         not_applicable=NA,
         notes="All checks rebuild from /repo's working tree (hash-keyed cache in /verif/.cache). Exit 0 held / 1 VIOLATION / 2 inconclusive or harness failure.")
json.dump(m, open(os.path.join(V, "MANIFEST.json"), "w"), indent=1)
print("wrote MANIFEST.json with", len(m["checks"]), "checks")
