#!/usr/bin/env python3
"""writes known_findings.json: `fixed` entries (resolved to the fix: commit of /repo by subject) and `open` entries."""
import json, os, subprocess
V = os.path.dirname(os.path.dirname(os.path.abspath(__file__)))
log = subprocess.run(["git", "-C", "/repo", "log", "--format=%h\t%s"], capture_output=True, text=True).stdout.splitlines()
commits = {l.split("\t", 1)[1]: l.split("\t", 1)[0] for l in log if "\t" in l}

# (property, subject of the fix commit, violation key the check printed, what failed)
FIXED = [
 ("C13", "fix: QSget_basis_order dereferenced a NULL basis header when no simplex basis is loaded", "C13|ubsan:load of null pointer of type 'int'|mpq_ILLlib_basis_order>mpq_QSget_basis_order", "QSget_basis_order after QSexact_solver (no simplex basis loaded) read lp->baz == NULL"),
 ("C17", "fix: do not build the pricing heap on a NULL key array under partial pricing", "C01|ubsan:load of null pointer of type 'double'|dbl_ILLheap_build>dbl_ILLprice_build_heap>dbl_ILLprice_test_for_heap", "pricing heap built on NULL d_scaleinf/p_scaleinf under QS_PRICE_PMULTPARTIAL/DMULTPARTIAL"),
 ("C01", "fix: recompute all reduced costs before the final primal optimality test under partial pricing", "C01|opt_primal|accessor-cert:rc", "mpq_QSopt_primal with QS_PRICE_PMULTPARTIAL returned stale reduced costs for never-scanned (fixed) columns: rc != c - A^T pi"),
 ("C02", "fix: QSopt_dual reported INFEASIBLE for unbounded LPs when the dual simplex stopped in its phase I", "C02|opt_dual|infeasible-on-feasible", "mpq_QSopt_dual reported INFEASIBLE for an unbounded LP (dual infeasibility found in dual phase I)"),
 ("C06", "fix: deleting rows or columns did not decrease the nonzero count", "C06|delete_row|nzcount N != stored entries N (model nonzeros N)", "QSget_nzcount kept counting entries of deleted rows/columns/logicals"),
 ("C06", "fix: QSchange_sense(..,'R') built a range row unlike the one QSadd_ranged_row builds", "C06|change_sense|range[N] N != model N", "QSchange_sense(..,'R') kept a stale range value and gave the logical coefficient +1 instead of -1"),
 ("C05", "fix: QSchange_range changed the reported range but not the constraint", "C05|exact-dual|resolve-value", "QSchange_range updated the reported range but not the logical's upper bound: the re-solve ignored the new range"),
 ("C17", "fix: unique-name generation indexed a buffer with log10 of a non-positive table size", "C06|ubsan:index N out of bounds for type 'char [N]'|ILLsymboltab_uname>ILLsymboltab_unique_name>mpq_ILLlib_findName", "unique-name generation used log10(<=0) as a buffer index when the symbol table holds <=1 names"),
 ("C06", "fix: generated column names were made unique against the row table", "C06|add_col|colnames not unique", "a clash of a generated column name was resolved against the row symbol table"),
 ("C16", "fix: QScopy_prob shared the pricing arrays of the original problem", "C05|asan:heap-use-after-free|mpq_ILLprice_free_pricing_info>mpq_QSfree_prob>mpq_ILLprice_free_pricing_info", "QScopy_prob after a solve shared norm/partial-pricing arrays with the original (use-after-free / double free)"),
 ("C17", "fix: re-solving after an edit used pricing data sized for the old problem", "C05|asan:heap-buffer-overflow|mpq_ILLprice_update_pdevex_norms>mpq_ILLprice_update_pricing_info>primal_phaseI_step", "re-solve after add_row used devex/steepest norms sized for the old problem; SEGV in grab_basis"),
 ("C05", "fix: changing a matrix coefficient or a row sense kept the old factorization", "C05|opt_primal|resolve-value", "QSchange_coef / QSchange_senses left factorok set: the re-solve used the LU of the old matrix and returned wrong optima"),
 ("C17", "fix: QSnew_row left row norms of the old dimension in the stored basis", "C05|asan:SEGV|mpq_ILLsimplex>mpq_ILLlib_optimize>opt_work", "QSnew_row after a dual solve left short row norms in the stored basis; the next dual solve read past them"),
 ("C05", "fix: a stored basis was loaded with nonbasic statuses that no longer fit the bounds", "C05|opt_primal|resolve-cert:accessor-cert:bound", "after QSchange_bound the stored basis statuses no longer fitted the bounds; the re-solve returned a point outside its bounds"),
 ("C17", "fix: partial pricing read group tables of size zero", "C05|asan:heap-buffer-overflow|mpq_ILLprice_mpartial_group>mpq_ILLprice_init_mpartial_price>primal_phaseI_step", "partial pricing on an LP without rows or without structural columns read empty group tables"),
 ("C05", "fix: singular-basis repair left a fixed column nonbasic at zero instead of at its bound", "C05|opt_primal|resolve-vs-truth", "a fixed column removed from a singular (loaded) basis was set nonbasic at 0 instead of at its bound"),
 ("C17", "fix: dual re-solve after adding columns indexed the old devex reference frame", "C05|asan:heap-buffer-overflow|mpq_ILLprice_update_ddevex_norms>mpq_ILLprice_update_pricing_info>dual_phaseII_step", "opt_dual (DDEVEX) after QSadd_col used a reference frame with the old column count"),
 ("C05", "fix: a basis stored while a row was ranged could not be loaded after QSchange_sense", "C05|delete_col|valid-edit-rejected", "rstat at-upper left from a former range row made ILLbasis_load fail, so later edits/solves returned errors"),
 ("C07", "fix: column index equal to the column count was accepted by the bound accessors", "C07|change_bound:col|accepted", "QSchange_bound/QSget_bound accepted index == ncols (read structmap out of range); QSget_bounds_list ignored bad entries"),
 ("C07", "fix: QSdelete_cols range-checked against the internal column count", "C07|delete_col|asan:SEGV|", "QSdelete_col(s) accepted indices in [ncols, ncols+nrows)"),
 ("C07", "fix: QSchange_sense(s) did not check its row indices", "C07|change_sense|asan:SEGV|", "QSchange_sense(s) indexed rowmap[] with unchecked row indices; list calls were not atomic"),
 ("C07", "fix: the add routines did not validate indices, senses and names before modifying the problem", "C07|add_row|asan:SEGV|", "QSadd_row(s)/QSadd_ranged_row(s)/QSnew_row/QSadd_col(s): unchecked indices and senses; duplicate names detected after partial modification"),
 ("C07", "fix: QSopt_pivotin_row/col used caller indices without checks (and as internal column numbers)", "C07|pivotin_col|asan:SEGV|", "QSopt_pivotin_row/col: unchecked indices, NULL basis arrays, structural vs internal column numbering"),
 ("C07", "fix: loading a basis discarded the current one before validating the new one", "C07|load_basis_array:no-basics|accepted", "QSload_basis/_array/_and_row_norms_array: malformed bases accepted or current basis destroyed on rejection"),
 ("C07", "fix: QSread_and_load_basis destroyed the current basis when the file could not be read", "C07|read_and_load_basis:nofile|solution-or-basis-changed", "QSread_and_load_basis freed the current basis before opening the file"),
 ("C14", "fix: QSwrite_basis(p, NULL, file) freed the problem's own basis", "C07|write_basis:dir|solution-or-basis-changed", "QSwrite_basis(p,NULL,..) freed p->basis; a mismatching basis argument was not refused"),
 ("C07", "fix: QSget_column_index/QSget_row_index reported success for unknown names", "C07|get_column_index:unknown|accepted", "QSget_column_index/QSget_row_index returned 0 with index -1 for unknown names"),
 ("C10", "fix: the LP reader took the string terminator for a name character", "C10|LP|valid-file-rejected", "an LP file without final newline whose last section is Bounds/Integer was rejected: NUL counted as a name character"),
 ("C10", "fix: MPS bound type UI with value 0 did not mark the column integer", "C10|MPS|column (obj,lo,up,int)=(Q, Q, Q, N) != expected (Q, Q, Q, N)", "MPS `UI bnd col 0` did not mark the column integer"),
 ("C10", "fix: the LP reader never recognised the INT spelling of the INTEGER section", "C10|LP|valid-file-rejected(INT)", "the INT spelling of the INTEGER section keyword was never recognised"),
 ("C08", "fix: the LP writer named the objective \"obj\" even when a row has that name", "C08|LP|own-output-rejected", "a row named obj clashed with the default objective name in the LP writer: own output rejected"),
 ("C09", "fix: the MPS writer turned a range row with range 0 into a G row", "C09|MPS|row = (G ...) != expected (R ...)", "an R row with range 0 was written without RANGES record and came back as G"),
]
OPEN = []
out = []
for prop, subj, key, what in FIXED:
    h = commits.get(subj)
    if not h:
        raise SystemExit("fix commit not found: " + subj)
    out.append(dict(property=prop, state="fixed", commit=h, key=key, what="fixed: property=%s %s %s" % (prop, h, what)))
for e in OPEN:
    out.append(e)
json.dump(dict(comment="state=open: genuine defects of jonls/qsopt-ex recorded rather than repaired (checks print KNOWN-FINDING and still fail on anything else). state=fixed: repaired by the named fix: commit in /repo; suppresses nothing.", findings=out),
          open(os.path.join(V, "known_findings.json"), "w"), indent=1)
print("wrote", len(out), "entries")
