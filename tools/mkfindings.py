#!/usr/bin/env python3
"""writes known_findings.json: `fixed` entries (resolved to the fix: commit of /repo by subject) and `open` entries."""
import json, os, subprocess
V = os.path.dirname(os.path.dirname(os.path.abspath(__file__)))
log = subprocess.run(["git", "-C", "/repo", "log", "--format=%h\t%s"], capture_output=True, text=True).stdout.splitlines()
commits = {l.split("\t", 1)[1]: l.split("\t", 1)[0] for l in log if "\t" in l}

# (property, subject of the fix commit, violation key the check printed, what failed)
FIXED = [
 ("C13", "fix: QSget_basis_order dereferenced a NULL basis header when no simplex basis is loaded", "C13|ubsan:load of null pointer of type 'int'|mpq_ILLlib_basis_order>mpq_QSget_basis_order", "QSget_basis_order after QSexact_solver (no simplex basis loaded) read lp->baz == NULL"),
 ("C17", "fix: do not build the pricing heap on a NULL key array under partial pricing", "C01|ubsan:load of null pointer of type 'double'|dbl_ILLheap_build>dbl_ILLprice_build_heap>dbl_ILLprice_test_for_heap", "pricing heap built on NULL d_scaleinf/p_scaleinf under QS_PRICE_PMULTPARTIAL/DMULTPARTIAL"),
 ("C01", "fix: recompute all reduced costs before the final primal optimality test under partial pricing", "C01|opt_primal|accessor-cert:rc", "mpq_QSopt_primal with QS_PRICE_PMULTPARTIAL returned stale reduced costs for never-scanned (fixed) columns: rc != c - A^T pi"),
 ("C02", "fix: QSopt_dual reported INFEASIBLE for unbounded LPs when the dual simplex stopped in its phase I", "C02|opt_dual|infeasible-on-feasible", "mpq_QSopt_dual reported INFEASIBLE for an unbounded LP (dual infeasibility found in dual phase I)"),
 ("C06", "fix: deleting rows or columns did not decrease the nonzero count", "C06|delete_row|nzcount N != stored entries N (model nonzeros N)", "QSget_nzcount kept counting entries of deleted rows/columns/logicals"),
 ("C06", "fix: QSchange_sense(..,'R') built a range row unlike the one QSadd_ranged_row builds", "C06|change_sense|range[N] N != model N", "QSchange_sense(..,'R') kept a stale range value and gave the logical coefficient +1 instead of -1"),
 ("C05", "fix: QSchange_range changed the reported range but not the constraint", "C05|exact-dual|resolve-value", "QSchange_range updated the reported range but not the logical's upper bound: the re-solve ignored the new range"),
 ("C17", "fix: unique-name generation indexed a buffer with log10 of a non-positive table size", "C06|ubsan:index N out of bounds for type 'char [N]'|ILLsymboltab_uname>ILLsymboltab_unique_name>mpq_ILLlib_findName", "unique-name generation used log10(<=0) as a buffer index when the symbol table holds <=1 names"),
 ("C06", "fix: generated column names were made unique against the row table", "C06|add_col|colnames not unique", "a clash of a generated column name was resolved against the row symbol table"),
 ("C16", "fix: QScopy_prob shared the pricing arrays of the original problem", "C05|asan:heap-use-after-free|mpq_ILLprice_free_pricing_info>mpq_QSfree_prob>mpq_ILLprice_free_pricing_info", "QScopy_prob after a solve shared norm/partial-pricing arrays with the original (use-after-free / double free)"),
 ("C17", "fix: re-solving after an edit used pricing data sized for the old problem", "C05|asan:heap-buffer-overflow|mpq_ILLprice_update_pdevex_norms>mpq_ILLprice_update_pricing_info>primal_phaseI_step", "re-solve after add_row used devex/steepest norms sized for the old problem; SEGV in grab_basis"),
 ("C05", "fix: changing a matrix coefficient or a row sense kept the old factorization", "C05|opt_primal|resolve-value", "QSchange_coef / QSchange_senses left factorok set: the re-solve used the LU of the old matrix and returned wrong optima"),
 ("C17", "fix: QSnew_row left row norms of the old dimension in the stored basis", "C05|asan:SEGV|mpq_ILLsimplex>mpq_ILLlib_optimize>opt_work", "QSnew_row after a dual solve left short row norms in the stored basis; the next dual solve read past them"),
 ("C05", "fix: a stored basis was loaded with nonbasic statuses that no longer fit the bounds", "C05|opt_primal|resolve-cert:accessor-cert:bound", "after QSchange_bound the stored basis statuses no longer fitted the bounds; the re-solve returned a point outside its bounds"),
 ("C17", "fix: partial pricing read group tables of size zero", "C05|asan:heap-buffer-overflow|mpq_ILLprice_mpartial_group>mpq_ILLprice_init_mpartial_price>primal_phaseI_step", "partial pricing on an LP without rows or without structural columns read empty group tables"),
 ("C05", "fix: singular-basis repair left a fixed column nonbasic at zero instead of at its bound", "C05|opt_primal|resolve-vs-truth", "a fixed column removed from a singular (loaded) basis was set nonbasic at 0 instead of at its bound"),
 ("C17", "fix: dual re-solve after adding columns indexed the old devex reference frame", "C05|asan:heap-buffer-overflow|mpq_ILLprice_update_ddevex_norms>mpq_ILLprice_update_pricing_info>dual_phaseII_step", "opt_dual (DDEVEX) after QSadd_col used a reference frame with the old column count"),
 ("C17", "fix: adding rows after a dual solve branched on an uninitialised size field", "C17|memcheck:Conditional jump or move depends on uninitialised value(s)|mpq_ILLlib_addrows>mpq_QSadd_rows>mpq_QSadd_row", "QSadd_row(s) after QSopt_dual (+ column adds) compared the never-initialised B->rownorms_size: heap overflow behind the stored row norms for large garbage (reported by a mutation sub-agent; hist corpus of C17 widened)"),
 ("C11", "fix: MPS files with SOS sets crashed the rational reader", "C11|crash|mps-sos", "any MPS file with an SOS set ('MARKER' 'SOSORG' lines): the SOS weight array was grown with realloc(sizeof(double)) and never initialised: mpq_set on garbage, wrong free (found while checking a leak reported by a mutation sub-agent; SOS sections added to the MPS generators and the fuzz dictionary)"),
 ("C18", "fix: the SOS type array of a problem read from MPS was never released", "C18|leak|buildSosInfo", "lp->sos_type allocated by buildSosInfo was never freed (reported by a mutation sub-agent)"),
 ("C18", "fix: partial-pricing group tables were rebuilt without releasing the old ones", "C18|leak|mpq_ILLprice_build_mpartial_info>mpq_ILLprice_build_pricing_info>mpq_ILLsimplex", "QSopt_dual under QS_PRICE_DMULTPARTIAL, then a bound/cost edit and a warm QSopt_dual: the group tables of the first solve leaked (found by C18 once its history corpus included the `warm` stream)"),
 ("C05", "fix: loading a basis discards the stored solution of the previous basis", "C05|stale|delete_row", "solve, QSload_basis* with a tight row marked basic, QSdelete_row of that row: the old optimum was still served by the accessors and by QSopt_primal (reported by a mutation sub-agent; C05 stream `basisload` added)"),
 ("C05", "fix: bound changes keep the retained working basis consistent", "C05|opt_dual|resolve-cert:accessor-cert:bound", "a nonbasic free column given a finite bound stayed free-at-zero in the retained working basis: warm re-solve OPTIMAL outside the bounds / UNBOUNDED (reported by a mutation sub-agent; C05 stream `warm` added)"),
 ("C05", "fix: a basis stored while a row was ranged could not be loaded after QSchange_sense", "C05|delete_col|valid-edit-rejected", "rstat at-upper left from a former range row made ILLbasis_load fail, so later edits/solves returned errors"),
 ("C07", "fix: column index equal to the column count was accepted by the bound accessors", "C07|change_bound:col|accepted", "QSchange_bound/QSget_bound accepted index == ncols (read structmap out of range); QSget_bounds_list ignored bad entries"),
 ("C07", "fix: QSdelete_cols range-checked against the internal column count", "C07|delete_col|asan:SEGV|", "QSdelete_col(s) accepted indices in [ncols, ncols+nrows)"),
 ("C07", "fix: QSchange_sense(s) did not check its row indices", "C07|change_sense|asan:SEGV|", "QSchange_sense(s) indexed rowmap[] with unchecked row indices; list calls were not atomic"),
 ("C07", "fix: the add routines did not validate indices, senses and names before modifying the problem", "C07|add_row|asan:SEGV|", "QSadd_row(s)/QSadd_ranged_row(s)/QSnew_row/QSadd_col(s): unchecked indices and senses; duplicate names detected after partial modification"),
 ("C07", "fix: QSopt_pivotin_row/col used caller indices without checks (and as internal column numbers)", "C07|pivotin_col|asan:SEGV|", "QSopt_pivotin_row/col: unchecked indices, NULL basis arrays, structural vs internal column numbering"),
 ("C07", "fix: loading a basis discarded the current one before validating the new one", "C07|load_basis_array:no-basics|accepted", "QSload_basis/_array/_and_row_norms_array: malformed bases accepted or current basis destroyed on rejection"),
 ("C07", "fix: QSread_and_load_basis destroyed the current basis when the file could not be read", "C07|read_and_load_basis:nofile|solution-or-basis-changed", "QSread_and_load_basis freed the current basis before opening the file"),
 ("C14", "fix: QSwrite_basis(p, NULL, file) freed the problem's own basis", "C07|write_basis:dir|solution-or-basis-changed", "QSwrite_basis(p,NULL,..) freed p->basis; a mismatching basis argument was not refused"),
 ("C07", "fix: QSget_column_index/QSget_row_index reported success for unknown names", "C07|get_column_index:unknown|accepted", "QSget_column_index/QSget_row_index returned 0 with index -1 for unknown names"),
 ("C10", "fix: the LP reader took the string terminator for a name character", "C10|LP|valid-file-rejected", "an LP file without final newline whose last section is Bounds/Integer was rejected: NUL counted as a name character"),
 ("C10", "fix: MPS bound type UI with value 0 did not mark the column integer", "C10|MPS|column (obj,lo,up,int)=(Q, Q, Q, N) != expected (Q, Q, Q, N)", "MPS `UI bnd col 0` did not mark the column integer"),
 ("C10", "fix: the LP reader never recognised the INT spelling of the INTEGER section", "C10|LP|valid-file-rejected(INT)", "the INT spelling of the INTEGER section keyword was never recognised"),
 ("C08", "fix: the LP writer named the objective \"obj\" even when a row has that name", "C08|LP|own-output-rejected", "a row named obj clashed with the default objective name in the LP writer: own output rejected"),
 ("C09", "fix: the MPS writer turned a range row with range 0 into a G row", "C09|MPS|row = (G ...) != expected (R ...)", "an R row with range 0 was written without RANGES record and came back as G"),
 ("C16", "fix: QScopy_prob dropped the iteration, time and objective limits", "C16|copy|differs:params", "QScopy_prob did not carry max-iterations, max-time and objective limits to the copy"),
 ("C11", "fix: a literal with zero denominator killed the process with SIGFPE", "C11|asan:FPE|mpq_EGlpNumReadStrXc>mpq_ILLget_value>mpq_ILLread_lp_state_value", "a literal p/0 in an LP/MPS file raised SIGFPE inside GMP"),
 ("C11", "fix: recording a parse error on an empty line read one byte before the buffer", "C11|asan:heap-buffer-overflow|mpq_ILLformat_error_create>mps_err>mpq_ILLmps_warn", "error collector: theLine[len-1] read with len == 0"),
 ("C11", "fix: parse error messages were formatted into a 256 byte stack buffer with vsprintf", "C11|asan:stack-buffer-overflow|mps_err>mpq_ILLmps_error>mpq_ILLlib_readbasis", "long names overflowed error_desc[256] in lp_err / mps_err"),
 ("C11", "fix: data warnings were formatted into a 256 byte stack buffer with vsprintf", "C11|asan:stack-buffer-overflow|ILLmsg>mpq_ILLdata_warn>transferObjective", "long names overflowed error_desc[256] in ILLmsg"),
 ("C11", "fix: a basis file with the wrong number of basic variables was accepted", "C11|asan:SEGV|init_matrix>ILLfactor_try>mpq_ILLfactor", "a basis file leaving != nrows basic variables was accepted and crashed the next solve"),
 ("C11", "fix: the simplex start message overflowed a 256 byte buffer for long problem names", "C11|asan:stack-buffer-overflow|mpq_ILLsimplex", "display on + problem name > 220 chars overflowed a 256 byte buffer"),
 ("C20", "fix: two error paths wrote to stderr behind the log handler's back", "C20|read_prob|stderr", "QSread_prob called perror() for a missing file; ILL_ERROR used fprintf(stderr)"),
 ("C18", "fix: QSexact_solver leaked the basis of an earlier precision level", "C18|leak|ILLutil_allocrus>mpf_QSget_basis>QSexact_solver", "basis of an earlier mpf level overwritten without free"),
 ("C18", "fix: QSerror_memory_free leaked the text of every collected error", "C18|leak|ILLutil_allocrus>mpq_ILLformat_error_create>mpq_ILLadd_error_to_memory", "error memory freed its list nodes but not their strings"),
 ("C18", "fix: the MPS reader leaked its working numbers and the OBJNAME copy on error returns", "C18|leak|ILLutil_allocrus>ILLutil_str>read_mps_objname", "MPS reader: early returns after EGlpNumInitVar; OBJNAME string never freed"),
 ("C18", "fix: the LP reader leaked three numbers on \"Coefficient without variable\"", "C18|leak|mpq_ILLread_one_constraint>read_constraints>mpq_ILLread_lp", "LP reader: return from the middle of ILLread_constraint_expr"),
 ("C18", "fix: QSexact_verify leaked a basis and dereferenced NULL for a basis of the wrong size", "C18|leak|ILLutil_allocrus>dbl_QSget_basis>QSexact_verify", "QSexact_verify overwrote the caller's basis pointer with a fetched basis (leak; NULL deref for mismatching sizes)"),
 ("C18", "fix: QSopt_pivotin_row/col leaked six numbers when there was nothing to pivot", "C18|leak|mpq_QSopt_pivotin_row", "ILLsimplex_pivotin early returns skipped EGlpNumClearVar"),
 ("C19", "fix: esolver -b exited with an error whenever the problem had no optimal basis", "C19|valid-file|exit-nonzero", "esolver -b on an unbounded problem exited 1 (no basis to write)"),
 ("C12", "fix: QSexact_verify's exact fallback judged the double solver's basis, not the given one", "C12|returned|verify-denies", "QSexact_verify(prestep) answered 0 for an exactly optimal basis because the fallback tested the double solver's basis"),
 ("C17", "fix: solution queries on a never-solved problem branched on uninitialised status fields", "C17|memcheck:Conditional jump or move depends on uninitialised value(s)|mpq_ILLlib_objval>mpq_QSget_objval", "QSget_objval / QSget_infeas_array before any solve read uninitialised lpinfo status fields"),
 ("C17", "fix: QSexact_basis_dualstatus passed an uninitialised primal status to the status update", "C17|memcheck:Conditional jump or move depends on uninitialised value(s)|mpq_ILLfct_set_status_values>QSexact_basis_dualstatus", "fi.pstatus uninitialised in QSexact_basis_dualstatus"),
 ("C17", "fix: addrows/addcols did pointer arithmetic on NULL arrays for lines without entries", "C11|fuzz|ubsan:applying zero offset to null pointer|dbl_ILLlib_addrows>dbl_ILLlib_newrows>dbl_QScopy_prob", "NULL + 0 pointer arithmetic in ILLlib_addrows/addcols (clang UBSan)"),
 ("C11", "fix: QSexact_solver died with SIGFPE when the double solve returned inf or nan", "C11|file|asan:FPE|mpq_EGlpNumSet>QSexact_solver", "a file with coefficients beyond the double range made QSexact_solver convert inf/nan with mpq_set_d (SIGFPE)"),
]
OPEN = []
out = []
for prop, subj, key, what in FIXED:
    h = commits.get(subj)
    if not h:
        raise SystemExit("fix commit not found: " + subj)
    out.append(dict(property=prop, state="fixed", commit=h, key=key, what="fixed: property=%s %s %s" % (prop, h, what)))
for e in OPEN:
    out.append(e)
json.dump(dict(comment="state=open: genuine defects of jonls/qsopt-ex recorded rather than repaired (checks print KNOWN-FINDING and still fail on anything else). state=fixed: repaired by the named fix: commit in /repo; suppresses nothing.", findings=out),
          open(os.path.join(V, "known_findings.json"), "w"), indent=1)
print("wrote", len(out), "entries")
