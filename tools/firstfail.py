#!/usr/bin/env python3
"""debug helper: re-run a C06 replay with a dump after every edit and report the first failing op"""
import sys, os, json
sys.path.insert(0, os.path.dirname(os.path.dirname(os.path.abspath(__file__))))
from vlib import run, script as vs
from checks import hist
case, d = run.load_replay(sys.argv[1])
L = []
for ln in case.script:
    L.append(ln)
    cmd = ln.split()[0]
    if cmd in vs.EDITS:
        L.append("dump p0")
case.script = L
b = run.builds(["asan"])
wd = run.workdir("ff")
res = run.run_cases(os.path.join(b["asan"], "qsdrive"), [case], wd, batch=1)
V, C, _ = hist.judge_c06(case, res[case.id])
for k, w in V:
    print(k); print("  ", w)
# print the ops up to failure
import re
if V:
    m = re.search(r"line (\d+)", V[0][1])
    if m:
        n = int(m.group(1))
        print("\n".join(x for x in L[:n + 1] if not x.startswith("dump")))
run.cleanup(wd)
