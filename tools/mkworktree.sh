#!/bin/sh
# usage: mkworktree.sh <dir>   -- scratch git worktree of /repo (HEAD) that can be configured and built offline
set -e
D="$1"
git -C /repo worktree add -q --detach "$D" HEAD
for f in configure Makefile.in aclocal.m4 config.h.in install-sh config.guess config.sub compile depcomp missing ltmain.sh test-driver; do
  [ -e /repo/$f ] && cp -p /repo/$f "$D/$f"
done
[ -d /repo/m4 ] && cp -rp /repo/m4/. "$D/m4/" 2>/dev/null || true
cd "$D" && ./configure >/dev/null 2>&1
echo "worktree ready: $D   (build: make -j16; test: make check)"
