#!/usr/bin/env python3
"""Rewrites the generated regions of DESIGN.md (between <!-- BEGIN:x --> / <!-- END:x --> markers):
   fixed  : table of repaired defects from known_findings.json
   seeded : matrix of seeded changes (seeded/*/meta.json) against the checks that were run on them"""
import json, os, re, glob
V = os.path.dirname(os.path.dirname(os.path.abspath(__file__)))


def fixed_table():
    d = json.load(open(os.path.join(V, "known_findings.json")))
    import subprocess
    log = subprocess.run(["git", "-C", "/repo", "log", "--format=%h\t%s"], capture_output=True, text=True).stdout.splitlines()
    subj = dict(l.split("\t", 1) for l in log if "\t" in l)
    rows = ["| property | fix commit in /repo | what failed | violation key the check printed |", "|---|---|---|---|"]
    for f in d["findings"]:
        if f.get("state") != "fixed":
            continue
        what = re.sub(r"^fixed: property=\S+ \S+ ", "", f.get("what", ""))
        rows.append("| %s | `%s` %s | %s | `%s` |" % (f["property"], f.get("commit", "?"), subj.get(f.get("commit", ""), "").replace("|", "\\|"),
                                                 what.replace("|", "\\|"), f.get("key", "").replace("|", "\\|")))
    op = [f for f in d["findings"] if f.get("state") == "open"]
    rows.append("")
    rows.append("Open (recorded, not repaired) findings: %d." % len(op))
    for f in op:
        rows.append("* %s `%s` — %s" % (f["property"], f["key"], f.get("what", "")))
    return "\n".join(rows)


def seeded_table():
    rows = ["| seeded change | property | needs to manifest | checks run (tier, seed) → result |", "|---|---|---|---|"]
    for mp in sorted(glob.glob(os.path.join(V, "seeded", "*", "meta.json"))):
        m = json.load(open(mp))
        last = {}
        for r in m.get("checks_run", []):
            last[(r["check"], r["tier"])] = r      # latest run per check/tier wins
        res = []
        for (c, t), r in sorted(last.items()):
            res.append("%s %s/%s: **%s**%s" % (c, t, r["seed"], "caught" if r["fired"] else ("silent" if r["exit"] == 0 else "inconclusive"),
                                              (" (`%s`)" % r["keys"][0].replace("|", "\\|")[:90]) if r["fired"] and r.get("keys") else ""))
        if m.get("status"):
            res.append("*%s*" % m["status"].split(":")[0])
        rows.append("| `%s` | %s | %s | %s |" % (m["id"], m["property"], m["needs_to_manifest"].replace("|", "\\|"), "; ".join(res) or "not run yet"))
    return "\n".join(rows)


def refix_table():
    p = os.path.join(V, "seeded", "refix-results.json")
    if not os.path.exists(p):
        return "(not run yet)"
    d = json.load(open(p))
    tot = len(d)
    na = [c for c, v in d.items() if not v.get("applies")]
    nobuild = [c for c, v in d.items() if v.get("applies") and v["checks"] and all(x["exit"] == 2 for x in v["checks"].values())]
    caught = [c for c, v in d.items() if v.get("applies") and any(x["fired"] for x in v["checks"].values())]
    silent = [c for c, v in d.items() if v.get("applies") and c not in caught and c not in nobuild]
    rows = ["%d repaired defects re-introduced one at a time (reverse patch of the `fix:` commit, quick tier, seed 1, the check under whose key the defect was first recorded): "
            "**%d caught**, %d reverse patches no longer apply (later fixes touch the same lines), %d no longer build, %d silent." % (tot, len(caught), len(na), len(nobuild), len(silent)), ""]
    if silent:
        rows += ["| silent in the quick tier | what it was |", "|---|---|"]
        for c in silent:
            rows.append("| `%s` | %s |" % (c, re.sub(r"^fixed: property=\S+ \S+ ", "", d[c]["what"]).replace("|", "\\|")[:200]))
    return "\n".join(rows)


def main():
    p = os.path.join(V, "DESIGN.md")
    s = open(p).read()
    for name, fn in (("fixed", fixed_table), ("seeded", seeded_table), ("refix", refix_table)):
        pat = re.compile(r"(<!-- BEGIN:%s -->\n).*?(<!-- END:%s -->)" % (name, name), re.S)
        if not pat.search(s):
            print("marker %s not found" % name)
            continue
        s = pat.sub(lambda m: m.group(1) + fn() + "\n" + m.group(2), s)
    open(p, "w").write(s)
    print("DESIGN.md tables refreshed")


if __name__ == "__main__":
    main()
