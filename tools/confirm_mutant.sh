#!/bin/sh
# usage: confirm_mutant.sh <outdir with patch.diff + run_demo.sh> <scratch worktree> <clean built worktree>
# Re-applies the patch to a pristine scratch worktree, rebuilds, runs the repo's own tests and the demonstration
# (must fail), and runs the demonstration on the clean worktree (must pass).  Prints one CONFIRMED / REJECTED line.
O="$1"; WT="$2"; CLEAN="$3"
cd "$WT" || exit 2
git checkout -q -- . || exit 2
git apply --whitespace=nowarn "$O/patch.diff" || { echo "REJECTED: patch does not apply"; exit 1; }
make -j16 >"$O/confirm-build.log" 2>&1 || { echo "REJECTED: does not build"; exit 1; }
make check >"$O/confirm-check.log" 2>&1
PASS=$(grep -E '^# PASS:' "$O/confirm-check.log" | awk '{print $3}')
FAIL=$(grep -E '^# FAIL:' "$O/confirm-check.log" | awk '{print $3}')
sh "$O/run_demo.sh" "$WT" >"$O/confirm-demo-changed.log" 2>&1; RC1=$?
sh "$O/run_demo.sh" "$CLEAN" >"$O/confirm-demo-original.log" 2>&1; RC0=$?
echo "tests pass=$PASS fail=$FAIL demo(original)=$RC0 demo(changed)=$RC1"
if [ "$PASS" = 20 ] && [ "$FAIL" = 0 ] && [ "$RC0" = 0 ] && [ "$RC1" != 0 ] && [ "$RC1" != 99 ]; then echo CONFIRMED; else echo REJECTED; exit 1; fi
