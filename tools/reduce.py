#!/usr/bin/env python3
"""debug helper: delta-debug a replay file's script down to a small script with the same violation key.
usage: reduce.py <C05|C06> <replay.json> [key-substring]"""
import sys, os, json
sys.path.insert(0, os.path.dirname(os.path.dirname(os.path.abspath(__file__))))
from vlib import run
from checks import hist

prop, path = sys.argv[1], sys.argv[2]
case, d = run.load_replay(path)
b = run.builds(["asan"])
wd = run.workdir("reduce")
judge = hist.judge_c06 if prop == "C06" else hist.judge_c05
nrun = 0


def keys(lines):
    global nrun
    nrun += 1
    c = run.Case("red", lines, case.meta, case.files)
    try:
        res = run.run_cases(os.path.join(b["asan"], "qsdrive"), [c], wd, batch=1, timeout=120)
        V, C, _ = judge(c, res[c.id])[:3]
    except run.HarnessError:
        return set()
    return set(k for k, w in V)


want = sys.argv[3] if len(sys.argv) > 3 else None
k0 = keys(case.script)
if not k0:
    print("no violation on the original script")
    sys.exit(1)
target = [k for k in k0 if (want is None or want in k)][0]
print("target key:", target)
L = list(case.script)
n = 2
while len(L) >= 2:
    chunk = max(1, len(L) // n)
    reduced = False
    for i in range(0, len(L), chunk):
        cand = L[:i] + L[i + chunk:]
        if cand and target in keys(cand):
            L = cand
            n = max(n - 1, 2)
            reduced = True
            break
    if not reduced:
        if chunk == 1:
            break
        n = min(len(L), n * 2)
print("reduced to %d lines in %d runs:" % (len(L), nrun))
print("\n".join(L))
run.cleanup(wd)
