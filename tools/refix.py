#!/usr/bin/env python3
"""refix.py [--only <commit> ...] [--tier quick]
Re-introduces each repaired defect (reverse patch of its `fix:` commit) into /repo in turn, runs the check whose key the defect
was recorded under, restores /repo, and records caught / silent / does-not-apply in seeded/refix-results.json."""
import argparse, json, os, subprocess, sys, time
V = os.path.dirname(os.path.dirname(os.path.abspath(__file__)))


def main():
    ap = argparse.ArgumentParser()
    ap.add_argument("--only", nargs="*")
    ap.add_argument("--tier", default="quick")
    ap.add_argument("--seed", default="1")
    ap.add_argument("--resume", action="store_true", help="skip commits that already have a result")
    a = ap.parse_args()
    st = subprocess.run(["git", "-C", "/repo", "status", "--porcelain", "--untracked-files=no"], capture_output=True, text=True).stdout.strip()
    if st:
        sys.exit("refusing: /repo has uncommitted tracked changes")
    kf = json.load(open(os.path.join(V, "known_findings.json")))["findings"]
    outp = os.path.join(V, "seeded", "refix-results.json")
    res = json.load(open(outp)) if os.path.exists(outp) else {}
    todo = {}
    for f in kf:
        if f.get("state") == "fixed" and f.get("commit") and (not a.only or f["commit"] in a.only):
            todo.setdefault(f["commit"], []).append(f)
    for c, fs in todo.items():
        if a.resume and c in res and (not res[c].get("applies") or res[c].get("checks")):
            continue
        checks = sorted(set(f["key"].split("|")[0] for f in fs))
        patch = subprocess.run(["git", "-C", "/repo", "diff", c, c + "~1"], capture_output=True, text=True).stdout
        pf = "/tmp/refix-%s.diff" % c
        open(pf, "w").write(patch)
        chk = subprocess.run(["git", "-C", "/repo", "apply", "--check", pf], capture_output=True, text=True)
        ent = dict(commit=c, what=fs[0]["what"], checks={})
        if chk.returncode:
            ent["applies"] = False
            print("%s: reverse patch no longer applies (later fixes touch the same lines)" % c)
        else:
            ent["applies"] = True
            r = subprocess.run([sys.executable, os.path.join(V, "tools", "mutest.py"), pf] + checks + ["--tier", a.tier, "--seed", a.seed],
                               capture_output=True, text=True, cwd=V)
            try:
                d = json.loads([l for l in r.stdout.splitlines() if l.startswith("{")][-1])
            except Exception:
                d = {}
            for k, v in d.items():
                ent["checks"][k] = dict(fired=v["exit"] == 1, exit=v["exit"], wall_s=v["wall"], keys=v["keys"][:3])
            print("%s: %s" % (c, {k: ("caught" if v["fired"] else "silent/%d" % v["exit"]) for k, v in ent["checks"].items()}))
        os.unlink(pf)
        res[c] = ent
        json.dump(res, open(outp, "w"), indent=1)
        sys.stdout.flush()


if __name__ == "__main__":
    main()
