/* libFuzzer target for the LP / MPS / basis readers (C11).
 * byte 0: bits 0-1 reader (0 LP, 1 MPS, 2 basis, 3 LP), bit 2 error collector, bit 3 log handler off->on,
 *         bit 4 solve after a successful read.  The rest is the file content (<= 64 KiB).
 * Exponents of more than 4 digits are outside the property's domain and skipped.
 * A library call to exit() is a finding (wrapped with -Wl,--wrap=exit). */
#ifdef HAVE_CONFIG_H
#include "config.h"
#endif
#include <stdio.h>
#include <fcntl.h>
#include <stdlib.h>
#include <string.h>
#include <stdint.h>
#include <unistd.h>
#include <gmp.h>
#include "logging-private.h"
#include "QSopt_ex.h"

static volatile int in_library = 0;
void __real_exit (int);
void __wrap_exit (int code)
{
	if (in_library)
	{
		fprintf (stderr, "FUZZ-FINDING: library called exit(%d)\n", code);
		abort ();
	}
	__real_exit (code);
}

static int saw_sos_msg = 0;
static void quiet (const char *m, void *d)
{
	(void) d;
	if (!m) { fprintf (stderr, "FUZZ-FINDING: NULL log message\n"); abort (); }
	if (strstr (m, "SOS information")) saw_sos_msg = 1;
}

typedef struct { const uint8_t *data; size_t len, pos; } membuf;
static char *mem_gets (char *s, int size, void *src)
{
	membuf *m = (membuf *) src; int n = 0;
	if (m->pos >= m->len || size < 2) return 0;
	while (n < size - 1 && m->pos < m->len) { char c = (char) m->data[m->pos++]; s[n++] = c; if (c == '\n') break; }
	s[n] = 0;
	return s;
}

static int long_exponent (const uint8_t *d, size_t n)
{
	size_t i, k;
	for (i = 0; i + 1 < n; i++)
		if (d[i] == 'e' || d[i] == 'E')
		{
			k = i + 1;
			if (k < n && (d[k] == '+' || d[k] == '-')) k++;
			size_t dig = 0;
			while (k < n && d[k] >= '0' && d[k] <= '9') { dig++; k++; }
			if (dig > 4) return 1;
		}
	return 0;
}

/* the optional solve after a successful read is only a consistency probe of the returned problem; with literals of hundreds
 * of digits the exact driver legitimately raises its working precision until the process needs gigabytes: not a reader matter */
static int long_digit_run (const uint8_t *d, size_t n)
{
	size_t i, run = 0;
	for (i = 0; i < n; i++)
	{
		if (d[i] >= '0' && d[i] <= '9') { if (++run > 18) return 1; }
		else run = 0;
	}
	return 0;
}

static mpq_QSprob base = 0;
static char tmpname[64];

static void fail (const char *what)
{
	fprintf (stderr, "FUZZ-FINDING: %s\n", what);
	abort ();
}

static void check_problem (mpq_QSprob p, int solve)
{
	int nc = mpq_QSget_colcount (p), nr = mpq_QSget_rowcount (p), i, j, rc, status = 0;
	mpq_t *lo, *up;
	char **cn, **rn;
	if (nc < 0 || nr < 0) fail ("negative counts");
	lo = mpq_EGlpNumAllocArray (nc > 0 ? nc : 1); up = mpq_EGlpNumAllocArray (nc > 0 ? nc : 1);
	if (nc > 0)
	{
		if (mpq_QSget_bounds (p, lo, up)) fail ("get_bounds fails on a problem returned by the reader");
		for (j = 0; j < nc; j++) if (mpq_cmp (lo[j], up[j]) > 0) fail ("reader returned lower > upper");
	}
	mpq_EGlpNumFreeArray (lo); mpq_EGlpNumFreeArray (up);
	cn = calloc (nc + 1, sizeof (char *)); rn = calloc (nr + 1, sizeof (char *));
	if (nc > 0 && mpq_QSget_colnames (p, cn)) fail ("get_colnames fails");
	if (nr > 0 && mpq_QSget_rownames (p, rn)) fail ("get_rownames fails");
	for (j = 0; j < nc; j++)
	{
		int idx = -2;
		if (!cn[j] || !cn[j][0]) fail ("empty column name");
		if (mpq_QSget_column_index (p, cn[j], &idx) || idx != j) fail ("column name does not map back to its index (duplicate names?)");
	}
	for (i = 0; i < nr; i++)
	{
		int idx = -2;
		if (!rn[i] || !rn[i][0]) fail ("empty row name");
		if (mpq_QSget_row_index (p, rn[i], &idx) || idx != i) fail ("row name does not map back to its index (duplicate names?)");
	}
	for (j = 0; j < nc; j++) free (cn[j]);
	for (i = 0; i < nr; i++) free (rn[i]);
	free (cn); free (rn);
	{
		int *cnt = 0, *beg = 0, *ind = 0; mpq_t *val = 0, *rhs = 0, *rng = 0; char *sense = 0; char **names = 0; int t, nz = 0;
		rc = mpq_QSget_ranged_rows (p, &cnt, &beg, &ind, &val, &rhs, &sense, &rng, &names);
		if (rc) fail ("get_ranged_rows fails on a returned problem");
		for (i = 0; i < nr; i++)
		{
			if (!strchr ("LGER", sense[i])) fail ("illegal sense in returned problem");
			if (sense[i] == 'R' && mpq_sgn (rng[i]) < 0) fail ("negative range in returned problem");
			for (t = 0; t < cnt[i]; t++) { if (ind[beg[i] + t] < 0 || ind[beg[i] + t] >= nc) fail ("column index out of range"); nz++; }
		}
		if (nr > 0 && nz != mpq_QSget_nzcount (p)) fail ("nzcount disagrees with the rows");
		free (cnt); free (beg); free (ind); mpq_EGlpNumFreeArray (val); mpq_EGlpNumFreeArray (rhs); mpq_EGlpNumFreeArray (rng); free (sense);
		if (names) { for (i = 0; i < nr; i++) free (names[i]); free (names); }
	}
	/* the LP format cannot carry SOS sets: that refusal (with its message) is the documented behaviour */
	saw_sos_msg = 0;
	if (mpq_QSwrite_prob (p, "/dev/null", "LP") && !saw_sos_msg) fail ("returned problem cannot be written as LP");
	if (mpq_QSwrite_prob (p, "/dev/null", "MPS")) fail ("returned problem cannot be written as MPS");
	if (solve && (long) nc * nr <= 400 && nc <= 40 && nr <= 40)
	{
		mpq_QSset_param (p, QS_PARAM_SIMPLEX_MAX_ITERATIONS, 50);
		rc = QSexact_solver (p, 0, 0, 0, DUAL_SIMPLEX, &status);
		(void) rc;
	}
}

int LLVMFuzzerInitialize (int *argc, char ***argv)
{
	(void) argc; (void) argv;
	QSlog_set_handler (quiet, 0);
	QSexactStart ();
	QSexact_set_precision (128);
	/* fixed 6x8 problem the basis files are read against */
	{
		int j, i; mpq_t v, z, inf; char nm[16];
		mpq_init (v); mpq_init (z); mpq_init (inf); mpq_set (inf, mpq_ILL_MAXDOUBLE);
		base = mpq_QScreate_prob ("base", QS_MIN);
		for (j = 0; j < 8; j++) { snprintf (nm, sizeof nm, "x%d", j + 1); mpq_set_si (v, j - 3, 1); mpq_QSnew_col (base, v, z, inf, nm); }
		for (i = 0; i < 6; i++)
		{
			int ind[3]; mpq_t val[3]; int t;
			for (t = 0; t < 3; t++) { mpq_init (val[t]); mpq_set_si (val[t], 1 + ((i + t) % 3), 1); ind[t] = (i + 2 * t) % 8; }
			ind[1] = (ind[0] + 1) % 8; ind[2] = (ind[0] + 3) % 8;
			snprintf (nm, sizeof nm, "c%d", i + 1);
			mpq_set_si (v, 5 + i, 1);
			mpq_QSadd_row (base, 3, ind, val, &v, "LGELGE"[i], nm);
			for (t = 0; t < 3; t++) mpq_clear (val[t]);
		}
		mpq_clear (v); mpq_clear (z); mpq_clear (inf);
	}
	snprintf (tmpname, sizeof tmpname, "fuzz-basis-%d.bas", (int) getpid ());
	return 0;
}

int LLVMFuzzerTestOneInput (const uint8_t *data, size_t size)
{
	uint8_t sel;
	membuf m;
	if (size < 1 || size > 65537) return 0;
	sel = data[0];
	data++; size--;
	if (long_exponent (data, size)) return 0;
	QSlog_set_handler (quiet, 0);
	in_library = 1;
	if ((sel & 3) == 2)
	{
		FILE *fp = fopen (tmpname, "wb");
		QSbasis *B;
		if (!fp) { in_library = 0; return 0; }
		fwrite (data, 1, size, fp); fclose (fp);
		if (sel & 16)
		{
			int rc = mpq_QSread_and_load_basis (base, tmpname);
			if (!rc)
			{
				int st = 0;
				mpq_QSset_param (base, QS_PARAM_SIMPLEX_MAX_ITERATIONS, 50);
				mpq_QSopt_dual (base, &st);
			}
		}
		else
		{
			B = mpq_QSread_basis (base, tmpname);
			if (B)
			{
				int i, nb = 0;
				if (B->nstruct != 8 || B->nrows != 6) fail ("basis of wrong size returned");
				for (i = 0; i < 8; i++) { if (!strchr ("0123", B->cstat[i])) fail ("illegal cstat in returned basis"); nb += B->cstat[i] == '1'; }
				for (i = 0; i < 6; i++) { if (!strchr ("012", B->rstat[i])) fail ("illegal rstat in returned basis"); nb += B->rstat[i] == '1'; }
				if (nb != 6) fail ("returned basis does not have nrows basic variables");
				if (mpq_QSload_basis (base, B)) fail ("returned basis refused by QSload_basis");
				mpq_QSfree_basis (B);
			}
		}
	}
	else
	{
		mpq_QSline_reader rd;
		mpq_QSerror_memory mem = 0; mpq_QSerror_collector ec = 0;
		mpq_QSprob p;
		m.data = data; m.len = size; m.pos = 0;
		rd = mpq_QSline_reader_new ((void *) mem_gets, &m);
		if (sel & 4) { mem = mpq_QSerror_memory_create ((sel & 8) ? 0 : 1); ec = mpq_QSerror_memory_collector_new (mem); mpq_QSline_reader_set_error_collector (rd, ec); }
		p = mpq_QSget_prob (rd, "fuzz", (sel & 3) == 1 ? "MPS" : "LP");
		if (p)
		{
			check_problem (p, (sel & 16) && size < 3000 && !long_digit_run (data, size));
			mpq_QSfree_prob (p);
		}
		if (mem)
		{
			/* every collected error is printed to a stream of the caller, which has to stay open */
			static FILE *own; int i = 0, fd; mpq_QSformat_error e;
			if (!own) own = fopen ("/dev/null", "w");
			fd = own ? fileno (own) : -1;
			for (e = mpq_QSerror_memory_get_last_error (mem); own && e && i < 12; e = mpq_QSerror_memory_get_prev_error (e), i++)
			{
				mpq_QSerror_print (own, e);
				if (fcntl (fd, F_GETFD) == -1) { own = 0; fail ("QSerror_print closed the stream of its caller"); }
			}
		}
		mpq_QSline_reader_free (rd);
		if (ec) mpq_QSerror_collector_free (ec);
		if (mem) mpq_QSerror_memory_free (mem);
	}
	in_library = 0;
	return 0;
}
