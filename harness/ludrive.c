/* ludrive: component driver for the sparse LU code (installed header factor_mpq.h).
 * usage: ludrive <script>   -- one JSON record per command on stdout; nothing is judged here.
 * script:  matrix n | iparam id v | dparam id v | col j cnt (i v)* | factor | ftran cnt (i v)* | btran cnt (i v)* |
 *          replace j cnt (i v)* | replace_copy j o | end */
#ifdef HAVE_CONFIG_H
#include "config.h"
#endif
#include <stdio.h>
#include <stdlib.h>
#include <string.h>
#include <gmp.h>
#include "logging-private.h"
#include "QSopt_ex.h"

static int n = 0;
static int *cbeg, *clen, *cindx, *basis;
static mpq_t *ccoef;
static int cap = 0;									/* entries per column slot: n */
static mpq_factor_work *f = 0;
static int factored = 0;

static void quiet (const char *m, void *d) { (void) m; (void) d; }

static void put_q (mpq_t q) { putchar ('"'); mpq_out_str (stdout, 10, q); putchar ('"'); }

static void set_col (int j, int cnt, int *ind, mpq_t * val)
{
	int t;
	clen[j] = cnt;
	for (t = 0; t < cnt; t++) { cindx[cbeg[j] + t] = ind[t]; mpq_set (ccoef[cbeg[j] + t], val[t]); }
}

static void new_work (void)
{
	if (f)
	{
		mpq_ILLfactor_free_factor_work (f);
		mpq_clear (f->fzero_tol); mpq_clear (f->szero_tol); mpq_clear (f->partial_tol); mpq_clear (f->maxelem_orig);
		mpq_clear (f->maxelem_factor); mpq_clear (f->maxelem_cur); mpq_clear (f->partial_cur);
		free (f);
	}
	f = malloc (sizeof (mpq_factor_work));
	mpq_init (f->fzero_tol); mpq_init (f->szero_tol); mpq_init (f->partial_tol); mpq_init (f->maxelem_orig);
	mpq_init (f->maxelem_factor); mpq_init (f->maxelem_cur); mpq_init (f->partial_cur);
	mpq_ILLfactor_init_factor_work (f);
}

/* pending parameter settings are re-applied to every fresh factor_work */
static int ipar[32][2], nipar = 0;
static double dpar[32][2]; static int ndpar = 0;

static int do_factor (int *nsing)
{
	int rc, *singr = 0, *singc = 0, t;
	mpq_t v;
	mpq_ILLfactor_free_factor_work (f);
	mpq_ILLfactor_init_factor_work (f);
	mpq_init (v);
	for (t = 0; t < nipar; t++) mpq_ILLfactor_set_factor_iparam (f, ipar[t][0], ipar[t][1]);
	for (t = 0; t < ndpar; t++) { mpq_set_d (v, dpar[t][1]); mpq_ILLfactor_set_factor_dparam (f, (int) dpar[t][0], v); }
	mpq_clear (v);
	rc = mpq_ILLfactor_create_factor_work (f, n);
	if (rc) return rc;
	*nsing = 0;
	rc = mpq_ILLfactor (f, basis, cbeg, clen, cindx, ccoef, nsing, &singr, &singc);
	free (singr); free (singc);
	return rc;
}

static char *linebuf = 0; static size_t linecap = 0;
static char **tok = 0; static int ntok = 0, tokcap = 0, tp = 0;
static void split_line (char *s)
{
	ntok = 0; tp = 0;
	while (*s)
	{
		while (*s == ' ' || *s == '\t' || *s == '\n') s++;
		if (!*s) break;
		if (ntok == tokcap) { tokcap = tokcap ? 2 * tokcap : 64; tok = realloc (tok, tokcap * sizeof (char *)); }
		tok[ntok++] = s;
		while (*s && *s != ' ' && *s != '\t' && *s != '\n') s++;
		if (*s) *s++ = 0;
	}
}
static char *nt (void) { if (tp >= ntok) { fprintf (stderr, "ludrive: missing token\n"); exit (3); } return tok[tp++]; }
static int ni (void) { return atoi (nt ()); }
static void nq (mpq_t q) { if (mpq_set_str (q, nt (), 10)) { fprintf (stderr, "ludrive: bad number\n"); exit (3); } mpq_canonicalize (q); }

static void read_vec (mpq_svector * v)
{
	int c = ni (), t;
	mpq_ILLsvector_init (v);
	mpq_ILLsvector_alloc (v, n > 0 ? n : 1);
	v->nzcnt = c;
	for (t = 0; t < c; t++) { v->indx[t] = ni (); nq (v->coef[t]); }
}
static void out_vec (mpq_svector * x)
{
	int t;
	printf ("\"ind\":[");
	for (t = 0; t < x->nzcnt; t++) printf ("%s%d", t ? "," : "", x->indx[t]);
	printf ("],\"val\":[");
	for (t = 0; t < x->nzcnt; t++) { if (t) putchar (','); put_q (x->coef[t]); }
	printf ("]");
}

int main (int argc, char **argv)
{
	FILE *sc;
	int j, t;
	if (argc < 2) return 3;
	sc = fopen (argv[1], "r");
	if (!sc) return 3;
	QSlog_set_handler (quiet, 0);
	QSexactStart ();
	while (getline (&linebuf, &linecap, sc) >= 0)
	{
		split_line (linebuf);
		if (!ntok) continue;
		tp = 1;
		if (!strcmp (tok[0], "matrix"))
		{
			n = ni (); cap = n > 0 ? n : 1;
			cbeg = malloc (cap * sizeof (int)); clen = calloc (cap, sizeof (int)); basis = malloc (cap * sizeof (int));
			cindx = malloc (cap * cap * sizeof (int));
			ccoef = malloc (cap * cap * sizeof (mpq_t));
			for (t = 0; t < cap * cap; t++) mpq_init (ccoef[t]);
			for (j = 0; j < n; j++) { cbeg[j] = j * cap; basis[j] = j; }
			new_work ();
			factored = 0; nipar = ndpar = 0;
			printf ("{\"op\":\"matrix\",\"n\":%d}\n", n);
		}
		else if (!strcmp (tok[0], "iparam")) { ipar[nipar][0] = ni (); ipar[nipar][1] = ni (); nipar++; printf ("{\"op\":\"iparam\"}\n"); }
		else if (!strcmp (tok[0], "dparam")) { dpar[ndpar][0] = ni (); dpar[ndpar][1] = atof (nt ()); ndpar++; printf ("{\"op\":\"dparam\"}\n"); }
		else if (!strcmp (tok[0], "col"))
		{
			mpq_svector v;
			j = ni (); read_vec (&v);
			set_col (j, v.nzcnt, v.indx, v.coef);
			mpq_ILLsvector_free (&v);
			printf ("{\"op\":\"col\"}\n");
		}
		else if (!strcmp (tok[0], "factor"))
		{
			int nsing = 0, rc = do_factor (&nsing);
			factored = (rc == 0 && nsing == 0);
			printf ("{\"op\":\"factor\",\"rc\":%d,\"nsing\":%d}\n", rc, nsing);
			if (!factored) break;
		}
		else if (!strcmp (tok[0], "ftran") || !strcmp (tok[0], "btran"))
		{
			mpq_svector a, x;
			int isf = tok[0][0] == 'f';
			read_vec (&a);
			mpq_ILLsvector_init (&x); mpq_ILLsvector_alloc (&x, cap);
			if (isf) mpq_ILLfactor_ftran (f, &a, &x); else mpq_ILLfactor_btran (f, &a, &x);
			printf ("{\"op\":\"%s\",", isf ? "ftran" : "btran"); out_vec (&x); printf ("}\n");
			mpq_ILLsvector_free (&a); mpq_ILLsvector_free (&x);
		}
		else if (!strcmp (tok[0], "replace") || !strcmp (tok[0], "replace_copy"))
		{
			mpq_svector a, upd, x;
			int rc, refact = 0, nsing = 0, oldlen, *oldind; mpq_t *oldval; const char *status, *cause = "";
			j = ni ();
			if (!strcmp (tok[0], "replace_copy"))
			{
				int o = ni ();
				mpq_ILLsvector_init (&a); mpq_ILLsvector_alloc (&a, cap);
				a.nzcnt = clen[o];
				for (t = 0; t < clen[o]; t++) { a.indx[t] = cindx[cbeg[o] + t]; mpq_set (a.coef[t], ccoef[cbeg[o] + t]); }
			}
			else read_vec (&a);
			mpq_ILLsvector_init (&upd); mpq_ILLsvector_alloc (&upd, cap);
			mpq_ILLsvector_init (&x); mpq_ILLsvector_alloc (&x, cap);
			/* remember the old column */
			oldlen = clen[j]; oldind = malloc ((oldlen + 1) * sizeof (int)); oldval = malloc ((oldlen + 1) * sizeof (mpq_t));
			for (t = 0; t < oldlen; t++) { oldind[t] = cindx[cbeg[j] + t]; mpq_init (oldval[t]); mpq_set (oldval[t], ccoef[cbeg[j] + t]); }
			mpq_ILLfactor_ftran_update (f, &a, &upd, &x);
			rc = mpq_ILLfactor_update (f, &upd, j, &refact);
			set_col (j, a.nzcnt, a.indx, a.coef);
			if (rc == 0 && !refact) status = "updated";
			else
			{
				cause = refact ? "eta-limit" : rc == E_UPDATE_NOSPACE ? "nospace" : rc == E_FACTOR_BLOWUP ? "blowup" :
					rc == E_UPDATE_SINGULAR_ROW ? "singular-row" : rc == E_UPDATE_SINGULAR_COL ? "singular-col" : "other";
				rc = do_factor (&nsing);
				if (rc == 0 && nsing == 0) status = "refactored";
				else
				{
					/* the new matrix is reported singular: go back to the old one */
					set_col (j, oldlen, oldind, oldval);
					rc = do_factor (&nsing);
					status = (rc == 0 && nsing == 0) ? "singular-kept-old" : "lost";
				}
			}
			printf ("{\"op\":\"replace\",\"status\":\"%s\",\"cause\":\"%s\"}\n", status, cause);
			for (t = 0; t < oldlen; t++) mpq_clear (oldval[t]);
			free (oldind); free (oldval);
			mpq_ILLsvector_free (&a); mpq_ILLsvector_free (&upd); mpq_ILLsvector_free (&x);
			if (!strcmp (status, "lost")) break;
		}
		else if (!strcmp (tok[0], "end") || !strcmp (tok[0], "factor_sync")) break;
		else { fprintf (stderr, "ludrive: unknown command %s\n", tok[0]); return 3; }
		fflush (stdout);
	}
	fflush (stdout);
	return 0;
}
