/* qsdrive: script interpreter over the public qsopt-ex API.
 * usage: qsdrive <script> <eventlog>
 * Every script line is one public call; a record is written to the event log before the call
 * ({"seq":n,"begin":op}) and after it ({"seq":n,"rc":..., outputs...}).  Nothing is judged here. */
#ifdef HAVE_CONFIG_H
#include "config.h"
#endif
#include <stdio.h>
#include <stdlib.h>
#include <string.h>
#include <unistd.h>
#include <fcntl.h>
#include <limits.h>
#include <sys/stat.h>
#include <gmp.h>
#include "logging-private.h"
#include "QSopt_ex.h"

#define NSLOT 16
static mpq_QSprob P[NSLOT];
static QSbasis *B[NSLOT];

static FILE *EV;
static long SEQ = 0;
static int ev_first = 1;

/* ---------------------------------------------------------------- tokens */
static char *linebuf = 0;
static size_t linecap = 0;
static char **tok = 0;
static int ntok = 0, tokcap = 0, tp = 0;
static long lineno = 0;

static void die (const char *msg)
{
	fprintf (stderr, "qsdrive: script error line %ld: %s\n", lineno, msg);
	if (EV) { fprintf (EV, "{\"driver_error\":\"line %ld: %s\"}\n", lineno, msg); fflush (EV); }
	_exit (3);
}
static void split_line (char *s)
{
	ntok = 0; tp = 0;
	while (*s)
	{
		while (*s == ' ' || *s == '\t' || *s == '\n' || *s == '\r') s++;
		if (!*s) break;
		if (ntok == tokcap) { tokcap = tokcap ? 2 * tokcap : 64; tok = realloc (tok, tokcap * sizeof (char *)); }
		tok[ntok++] = s;
		while (*s && *s != ' ' && *s != '\t' && *s != '\n' && *s != '\r') s++;
		if (*s) *s++ = 0;
	}
}
static int more (void) { return tp < ntok; }
static char *nt (void) { if (tp >= ntok) die ("missing token"); return tok[tp++]; }
static int ni (void)
{
	char *t = nt (), *e;
	long v;
	if (!strcmp (t, "INT_MAX")) return INT_MAX;
	if (!strcmp (t, "INT_MIN")) return INT_MIN;
	v = strtol (t, &e, 10);
	if (*e) die ("bad int");
	return (int) v;
}
/* a name: "~" = NULL, a token starting with '%' is percent-encoded ("%" alone = the empty string, "%my%20prob" = "my prob") */
static char *nname (void)
{
	char *t = nt (), *r, *w;
	if (!strcmp (t, "~")) return 0;
	if (t[0] != '%') return t;
	for (r = t + 1, w = t; *r; )
	{
		if (*r == '%' && r[1] && r[2]) { char h[3] = { r[1], r[2], 0 }; *w++ = (char) strtol (h, 0, 16); r += 3; }
		else *w++ = *r++;
	}
	*w = 0;
	return t;
}
/* a character argument: "L" or "#76" (numeric code) */
static int nchr (void) { char *t = nt (); if (t[0] == '#') return atoi (t + 1); return (unsigned char) t[0]; }
static void nq (mpq_t q)
{
	char *t = nt ();
	if (!strcmp (t, "inf") || !strcmp (t, "+inf")) { mpq_set (q, mpq_ILL_MAXDOUBLE); return; }
	if (!strcmp (t, "-inf")) { mpq_set (q, mpq_ILL_MINDOUBLE); return; }
	if (mpq_set_str (q, t, 10)) die ("bad rational");
	if (mpz_sgn (mpq_denref (q)) == 0) die ("zero denominator in script");
	mpq_canonicalize (q);
}
static int nslot (char kind)
{
	char *t = nt ();
	int k;
	if (t[0] != kind) die ("bad slot kind");
	k = atoi (t + 1);
	if (k < 0 || k >= NSLOT) die ("bad slot");
	return k;
}
/* basis slot or "-" */
static int nbslot (void) { if (!strcmp (tok[tp < ntok ? tp : 0], "-")) { tp++; return -1; } return nslot ('b'); }
static int nsense (void)
{
	char *t = nt ();
	if (!strcmp (t, "min")) return QS_MIN;
	if (!strcmp (t, "max")) return QS_MAX;
	return atoi (t);
}

/* ---------------------------------------------------------------- rationals */
static mpq_t *qalloc (int n)
{
	int i;
	mpq_t *a = malloc ((n > 0 ? n : 1) * sizeof (mpq_t));
	for (i = 0; i < n; i++) mpq_init (a[i]);
	return a;
}
static void qfree (mpq_t * a, int n)
{
	int i;
	if (!a) return;
	for (i = 0; i < n; i++) mpq_clear (a[i]);
	free (a);
}

/* ---------------------------------------------------------------- JSON emit */
static void ev_open (void) { fputc ('{', EV); ev_first = 1; }
static void ev_close (void) { fputs ("}\n", EV); fflush (EV); }
static void ev_key (const char *k) { if (!ev_first) fputc (',', EV); ev_first = 0; fprintf (EV, "\"%s\":", k); }
static void put_str (const char *s, long n)
{
	long i;
	if (!s) { fputs ("null", EV); return; }
	if (n < 0) n = (long) strlen (s);
	fputc ('"', EV);
	for (i = 0; i < n; i++)
	{
		unsigned char c = (unsigned char) s[i];
		if (c == '"' || c == '\\') { fputc ('\\', EV); fputc (c, EV); }
		else if (c < 0x20 || c >= 0x7f) fprintf (EV, "\\u%04x", c);
		else fputc (c, EV);
	}
	fputc ('"', EV);
}
static void put_q (mpq_t q)
{
	if (mpq_equal (q, mpq_ILL_MAXDOUBLE)) { fputs ("\"inf\"", EV); return; }
	if (mpq_equal (q, mpq_ILL_MINDOUBLE)) { fputs ("\"-inf\"", EV); return; }
	fputc ('"', EV); mpq_out_str (EV, 10, q); fputc ('"', EV);
}
static void ev_int (const char *k, long v) { ev_key (k); fprintf (EV, "%ld", v); }
static void ev_str (const char *k, const char *s) { ev_key (k); put_str (s, -1); }
static void ev_chars (const char *k, const char *s, int n) { ev_key (k); put_str (s, s ? n : -1); }
static void ev_q (const char *k, mpq_t q) { ev_key (k); put_q (q); }
static void ev_qarr (const char *k, mpq_t * a, int n)
{
	int i;
	ev_key (k);
	if (!a) { fputs ("null", EV); return; }
	fputc ('[', EV);
	for (i = 0; i < n; i++) { if (i) fputc (',', EV); put_q (a[i]); }
	fputc (']', EV);
}
static void ev_iarr (const char *k, int *a, int n)
{
	int i;
	ev_key (k);
	if (!a) { fputs ("null", EV); return; }
	fputc ('[', EV);
	for (i = 0; i < n; i++) fprintf (EV, "%s%d", i ? "," : "", a[i]);
	fputc (']', EV);
}
static void ev_sarr (const char *k, char **a, int n)
{
	int i;
	ev_key (k);
	if (!a) { fputs ("null", EV); return; }
	fputc ('[', EV);
	for (i = 0; i < n; i++) { if (i) fputc (',', EV); put_str (a[i], -1); }
	fputc (']', EV);
}

/* ---------------------------------------------------------------- log handler, capture, hooks */
#define MAXLOGKEEP 12
static long log_count = 0, log_null = 0;
static char *log_keep[MAXLOGKEEP];
static int log_nkeep = 0;
static int handler_on = 1;
static void log_handler (const char *msg, void *data)
{
	(void) data;
	log_count++;
	if (!msg) { log_null++; return; }
	if (log_nkeep < MAXLOGKEEP)
	{
		size_t n = strlen (msg);
		if (n > 160) n = 160;
		log_keep[log_nkeep] = malloc (n + 1);
		memcpy (log_keep[log_nkeep], msg, n);
		log_keep[log_nkeep][n] = 0;
		log_nkeep++;
	}
}
static int capturing = 0;
static off_t cap1 = 0, cap2 = 0;
static off_t fdsize (int fd) { struct stat st; if (fstat (fd, &st)) return 0; return st.st_size; }

#define MAXHK 64
static struct { const char *w; long a, b; } hk[MAXHK];
static long hk_n = 0;
/* lu aggregation per numeric type: 0 dbl 1 mpf 2 mpq */
static long lu_upd[3], lu_fac[3], lu_run[3], lu_maxrun[3], lu_err[3], lu_sing[3], lu_refreq[3];
static int tyidx (const char *w) { const char *d = strrchr (w, '.'); if (!d) return 0; return !strcmp (d, ".dbl") ? 0 : !strcmp (d, ".mpf") ? 1 : 2; }
static void hook_fn (const char *w, long a, long b)
{
	if (!strncmp (w, "lu.update", 9))
	{
		int t = tyidx (w);
		if (a == 0 && b == 0) { lu_upd[t]++; lu_run[t]++; if (lu_run[t] > lu_maxrun[t]) lu_maxrun[t] = lu_run[t]; }
		else if (a == 0) lu_refreq[t]++;
		else lu_err[t]++;
		return;
	}
	if (!strncmp (w, "lu.factor", 9))
	{
		int t = tyidx (w);
		lu_fac[t]++; lu_run[t] = 0; if (a) lu_sing[t]++;
		return;
	}
	if (hk_n < MAXHK) { hk[hk_n].w = w; hk[hk_n].a = a; hk[hk_n].b = b; }
	hk_n++;
}

static const char *cur_op = "";
static void BEGIN (const char *op)
{
	int i;
	cur_op = op;
	SEQ++;
	fprintf (EV, "{\"seq\":%ld,\"begin\":\"%s\",\"line\":%ld}\n", SEQ, op, lineno);
	fflush (EV);
	log_count = 0; log_null = 0;
	for (i = 0; i < log_nkeep; i++) free (log_keep[i]);
	log_nkeep = 0;
	hk_n = 0;
	for (i = 0; i < 3; i++) lu_upd[i] = lu_fac[i] = lu_maxrun[i] = lu_err[i] = lu_sing[i] = lu_refreq[i] = 0;
	if (capturing) { fflush (NULL); cap1 = fdsize (1); cap2 = fdsize (2); }
	ev_open ();
	ev_int ("seq", SEQ);
	ev_str ("op", op);
}
static void END (void)
{
	int i;
	if (log_count)
	{
		ev_int ("logn", log_count);
		if (log_null) ev_int ("lognull", log_null);
		ev_sarr ("logs", log_keep, log_nkeep);
	}
	if (hk_n)
	{
		ev_key ("hk"); fputc ('[', EV);
		for (i = 0; i < hk_n && i < MAXHK; i++) fprintf (EV, "%s[\"%s\",%ld,%ld]", i ? "," : "", hk[i].w, hk[i].a, hk[i].b);
		fputc (']', EV);
		ev_int ("hkn", hk_n);
	}
	for (i = 0; i < 3; i++)
		if (lu_upd[i] || lu_fac[i] || lu_err[i] || lu_refreq[i])
		{
			static const char *nm[3] = { "lu_dbl", "lu_mpf", "lu_mpq" };
			ev_key (nm[i]);
			fprintf (EV, "{\"upd\":%ld,\"fac\":%ld,\"maxrun\":%ld,\"err\":%ld,\"sing\":%ld,\"refreq\":%ld}", lu_upd[i], lu_fac[i],
							 lu_maxrun[i], lu_err[i], lu_sing[i], lu_refreq[i]);
		}
	if (capturing)
	{
		off_t a, b;
		fflush (NULL);
		a = fdsize (1); b = fdsize (2);
		if (a != cap1) ev_int ("fd1", (long) (a - cap1));
		if (b != cap2) ev_int ("fd2", (long) (b - cap2));
	}
	ev_close ();
}

/* ---------------------------------------------------------------- construction */
/* sparse vector from tokens: cnt (ind val)*  */
typedef struct { int cnt; int *ind; mpq_t *val; } svec;
static void read_svec (svec * v)
{
	int i;
	v->cnt = ni ();
	if (v->cnt < 0 || v->cnt > 10000000) die ("bad cnt");
	v->ind = malloc ((v->cnt + 1) * sizeof (int));
	v->val = qalloc (v->cnt);
	for (i = 0; i < v->cnt; i++) { v->ind[i] = ni (); nq (v->val[i]); }
}
static void free_svec (svec * v) { free (v->ind); qfree (v->val, v->cnt); }

static void free_slot_p (int k) { if (P[k]) { mpq_QSfree_prob (P[k]); P[k] = 0; } }
static void free_slot_b (int k) { if (B[k]) { mpq_QSfree_basis (B[k]); B[k] = 0; } }

static void c_create (void)
{
	int k = nslot ('p'); char *name = nname (); int s = nsense ();
	BEGIN ("create");
	free_slot_p (k);
	P[k] = mpq_QScreate_prob (name, s);
	ev_int ("rc", P[k] ? 0 : 1);
	END ();
}
/* load pK name sense ncols nrows {col: name obj lo up cnt (ind val)*}*ncols {row: name sense rhs}*nrows */
static void c_load (void)
{
	int k = nslot ('p'); char *name = nname (); int s = nsense (); int nc = ni (), nr = ni ();
	int j, i, nz = 0, cap = 16;
	int *cnt = malloc ((nc + 1) * sizeof (int)), *beg = malloc ((nc + 1) * sizeof (int));
	int *ind = malloc (cap * sizeof (int));
	mpq_t *val = qalloc (0); int nval = 0;
	mpq_t *obj = qalloc (nc), *lo = qalloc (nc), *up = qalloc (nc), *rhs = qalloc (nr);
	char *sense = malloc (nr + 1);
	const char **cn = malloc ((nc + 1) * sizeof (char *)), **rn = malloc ((nr + 1) * sizeof (char *));
	int nullcn = 0, nullrn = 0;
	for (j = 0; j < nc; j++)
	{
		svec v;
		cn[j] = nname (); if (!cn[j]) nullcn = 1;
		nq (obj[j]); nq (lo[j]); nq (up[j]);
		read_svec (&v);
		cnt[j] = v.cnt; beg[j] = nz;
		for (i = 0; i < v.cnt; i++)
		{
			if (nz == cap) { cap *= 2; ind = realloc (ind, cap * sizeof (int)); }
			ind[nz] = v.ind[i];
			val = realloc (val, (nval + 1) * sizeof (mpq_t)); mpq_init (val[nval]); mpq_set (val[nval], v.val[i]); nval++;
			nz++;
		}
		free_svec (&v);
	}
	for (i = 0; i < nr; i++) { rn[i] = nname (); if (!rn[i]) nullrn = 1; sense[i] = (char) nchr (); nq (rhs[i]); }
	BEGIN ("load");
	free_slot_p (k);
	P[k] = mpq_QSload_prob (name, nc, nr, cnt, beg, ind, val, s, obj, rhs, sense, lo, up, nullcn ? 0 : cn, nullrn ? 0 : rn);
	ev_int ("rc", P[k] ? 0 : 1);
	END ();
	free (cnt); free (beg); free (ind); qfree (val, nval); qfree (obj, nc); qfree (lo, nc); qfree (up, nc); qfree (rhs, nr);
	free (sense); free (cn); free (rn);
}
static void c_new_col (void)
{
	int k = nslot ('p'), rc; mpq_t o, l, u; char *name;
	mpq_init (o); mpq_init (l); mpq_init (u);
	nq (o); nq (l); nq (u); name = nname ();
	BEGIN ("new_col");
	rc = mpq_QSnew_col (P[k], o, l, u, name);
	ev_int ("rc", rc);
	END ();
	mpq_clear (o); mpq_clear (l); mpq_clear (u);
}
static void c_add_col (void)
{
	int k = nslot ('p'), rc; mpq_t o, l, u; char *name; svec v;
	mpq_init (o); mpq_init (l); mpq_init (u);
	nq (o); nq (l); nq (u); name = nname (); read_svec (&v);
	BEGIN ("add_col");
	rc = mpq_QSadd_col (P[k], v.cnt, v.ind, v.val, o, l, u, name);
	ev_int ("rc", rc);
	END ();
	mpq_clear (o); mpq_clear (l); mpq_clear (u); free_svec (&v);
}
/* generic multi-line builder used by add_cols/add_rows/add_ranged_rows */
typedef struct { int num, nz, cap; int *cnt, *beg, *ind; mpq_t *val; int nval; } smat;
static void smat_init (smat * m, int num)
{
	m->num = num; m->nz = 0; m->cap = 16; m->nval = 0;
	m->cnt = malloc ((num + 1) * sizeof (int)); m->beg = malloc ((num + 1) * sizeof (int));
	m->ind = malloc (m->cap * sizeof (int)); m->val = qalloc (0);
}
static void smat_add (smat * m, int j, svec * v)
{
	int i;
	m->cnt[j] = v->cnt; m->beg[j] = m->nz;
	for (i = 0; i < v->cnt; i++)
	{
		if (m->nz == m->cap) { m->cap *= 2; m->ind = realloc (m->ind, m->cap * sizeof (int)); }
		m->ind[m->nz++] = v->ind[i];
		m->val = realloc (m->val, (m->nval + 1) * sizeof (mpq_t)); mpq_init (m->val[m->nval]); mpq_set (m->val[m->nval], v->val[i]); m->nval++;
	}
}
static void smat_free (smat * m) { free (m->cnt); free (m->beg); free (m->ind); qfree (m->val, m->nval); }

static void c_add_cols (void)
{
	int k = nslot ('p'), num = ni (), j, rc, allnull = 1;	/* names == NULL only when every entry is NULL; mixed lists are passed as they are */
	smat m; mpq_t *o = qalloc (num), *l = qalloc (num), *u = qalloc (num);
	const char **names = malloc ((num + 1) * sizeof (char *));
	smat_init (&m, num);
	for (j = 0; j < num; j++)
	{
		svec v;
		nq (o[j]); nq (l[j]); nq (u[j]); names[j] = nname (); if (names[j]) allnull = 0;
		read_svec (&v); smat_add (&m, j, &v); free_svec (&v);
	}
	BEGIN ("add_cols");
	rc = mpq_QSadd_cols (P[k], num, m.cnt, m.beg, m.ind, m.val, o, l, u, allnull ? 0 : names);
	ev_int ("rc", rc);
	END ();
	smat_free (&m); qfree (o, num); qfree (l, num); qfree (u, num); free (names);
}
static void c_new_row (void)
{
	int k = nslot ('p'), rc, s; mpq_t r; char *name;
	mpq_init (r); nq (r); s = nchr (); name = nname ();
	BEGIN ("new_row");
	rc = mpq_QSnew_row (P[k], r, s, name);
	ev_int ("rc", rc);
	END ();
	mpq_clear (r);
}
static void c_add_row (void)
{
	int k = nslot ('p'), rc, s; mpq_t r; char *name; svec v;
	mpq_init (r); nq (r); s = nchr (); name = nname (); read_svec (&v);
	BEGIN ("add_row");
	rc = mpq_QSadd_row (P[k], v.cnt, v.ind, v.val, &r, s, name);
	ev_int ("rc", rc);
	END ();
	mpq_clear (r); free_svec (&v);
}
static void c_add_ranged_row (void)
{
	int k = nslot ('p'), rc, s; mpq_t r, g; char *name; svec v;
	mpq_init (r); mpq_init (g); nq (r); s = nchr (); nq (g); name = nname (); read_svec (&v);
	BEGIN ("add_ranged_row");
	rc = mpq_QSadd_ranged_row (P[k], v.cnt, v.ind, v.val, &r, s, &g, name);
	ev_int ("rc", rc);
	END ();
	mpq_clear (r); mpq_clear (g); free_svec (&v);
}
static void add_rows_common (int ranged)
{
	int k = nslot ('p'), num = ni (), j, rc, allnull = 1;	/* names == NULL only when every entry is NULL; mixed lists are passed as they are */
	smat m; mpq_t *r = qalloc (num), *g = qalloc (num);
	char *sense = malloc (num + 1);
	const char **names = malloc ((num + 1) * sizeof (char *));
	smat_init (&m, num);
	for (j = 0; j < num; j++)
	{
		svec v;
		nq (r[j]); sense[j] = (char) nchr (); if (ranged) nq (g[j]);
		names[j] = nname (); if (names[j]) allnull = 0;
		read_svec (&v); smat_add (&m, j, &v); free_svec (&v);
	}
	BEGIN (ranged ? "add_ranged_rows" : "add_rows");
	if (ranged)
		rc = mpq_QSadd_ranged_rows (P[k], num, m.cnt, m.beg, m.ind, m.val, r, sense, g, allnull ? 0 : names);
	else
		rc = mpq_QSadd_rows (P[k], num, m.cnt, m.beg, m.ind, m.val, r, sense, allnull ? 0 : names);
	ev_int ("rc", rc);
	END ();
	smat_free (&m); qfree (r, num); qfree (g, num); free (sense); free (names);
}
static void c_add_rows (void) { add_rows_common (0); }
static void c_add_ranged_rows (void) { add_rows_common (1); }

/* ---------------------------------------------------------------- deletes */
static int *read_ilist (int *n)
{
	int i, *a;
	*n = ni ();
	if (*n < 0 || *n > 10000000) die ("bad list length");
	a = malloc ((*n + 1) * sizeof (int));
	for (i = 0; i < *n; i++) a[i] = ni ();
	return a;
}
static char **read_nlist (int *n)
{
	int i; char **a;
	*n = ni ();
	a = malloc ((*n + 1) * sizeof (char *));
	for (i = 0; i < *n; i++) a[i] = nname ();
	return a;
}
#define DEL_LIST(fn, opname) static void c_##fn (void) { int k = nslot ('p'), n, rc; int *a = read_ilist (&n); \
	BEGIN (opname); rc = mpq_QS##fn (P[k], n, a); ev_int ("rc", rc); END (); free (a); }
#define DEL_ONE(fn, opname) static void c_##fn (void) { int k = nslot ('p'), i = ni (), rc; \
	BEGIN (opname); rc = mpq_QS##fn (P[k], i); ev_int ("rc", rc); END (); }
#define DEL_NAME(fn, opname) static void c_##fn (void) { int k = nslot ('p'), rc; char *nm = nname (); \
	BEGIN (opname); rc = mpq_QS##fn (P[k], nm); ev_int ("rc", rc); END (); }
#define DEL_NAMES(fn, opname) static void c_##fn (void) { int k = nslot ('p'), n, rc; char **a = read_nlist (&n); \
	BEGIN (opname); rc = mpq_QS##fn (P[k], n, (const char **) a); ev_int ("rc", rc); END (); free (a); }
DEL_LIST (delete_rows, "delete_rows")
DEL_LIST (delete_cols, "delete_cols")
DEL_ONE (delete_row, "delete_row")
DEL_ONE (delete_col, "delete_col")
DEL_NAME (delete_named_row, "delete_named_row")
DEL_NAME (delete_named_column, "delete_named_column")
DEL_NAMES (delete_named_rows_list, "delete_named_rows_list")
DEL_NAMES (delete_named_columns_list, "delete_named_columns_list")
/* flags: exactly as many ints as the script gives (script is responsible for giving count entries) */
static void c_delete_setrows (void)
{ int k = nslot ('p'), n, rc; int *a = read_ilist (&n); BEGIN ("delete_setrows"); rc = mpq_QSdelete_setrows (P[k], a); ev_int ("rc", rc); END (); free (a); }
static void c_delete_setcols (void)
{ int k = nslot ('p'), n, rc; int *a = read_ilist (&n); BEGIN ("delete_setcols"); rc = mpq_QSdelete_setcols (P[k], a); ev_int ("rc", rc); END (); free (a); }

/* ---------------------------------------------------------------- changes */
static void c_change_sense (void)
{ int k = nslot ('p'), i = ni (), s = nchr (), rc; BEGIN ("change_sense"); rc = mpq_QSchange_sense (P[k], i, s); ev_int ("rc", rc); END (); }
static void c_change_senses (void)
{
	int k = nslot ('p'), n = ni (), i, rc; int *l = malloc ((n + 1) * sizeof (int)); char *s = malloc (n + 1);
	for (i = 0; i < n; i++) { l[i] = ni (); s[i] = (char) nchr (); }
	BEGIN ("change_senses"); rc = mpq_QSchange_senses (P[k], n, l, s); ev_int ("rc", rc); END ();
	free (l); free (s);
}
static void c_change_coef (void)
{
	int k = nslot ('p'), r = ni (), c = ni (), rc; mpq_t v; mpq_init (v); nq (v);
	BEGIN ("change_coef"); rc = mpq_QSchange_coef (P[k], r, c, v); ev_int ("rc", rc); END (); mpq_clear (v);
}
#define CHG1(fn, opname) static void c_##fn (void) { int k = nslot ('p'), i = ni (), rc; mpq_t v; mpq_init (v); nq (v); \
	BEGIN (opname); rc = mpq_QS##fn (P[k], i, v); ev_int ("rc", rc); END (); mpq_clear (v); }
CHG1 (change_objcoef, "change_objcoef")
CHG1 (change_rhscoef, "change_rhscoef")
CHG1 (change_range, "change_range")
static void c_change_bound (void)
{
	int k = nslot ('p'), i = ni (), lu = nchr (), rc; mpq_t v; mpq_init (v); nq (v);
	BEGIN ("change_bound"); rc = mpq_QSchange_bound (P[k], i, lu, v); ev_int ("rc", rc); END (); mpq_clear (v);
}
static void c_change_bounds (void)
{
	int k = nslot ('p'), n = ni (), i, rc; int *l = malloc ((n + 1) * sizeof (int)); char *lu = malloc (n + 1); mpq_t *v = qalloc (n);
	for (i = 0; i < n; i++) { l[i] = ni (); lu[i] = (char) nchr (); nq (v[i]); }
	BEGIN ("change_bounds"); rc = mpq_QSchange_bounds (P[k], n, l, lu, v); ev_int ("rc", rc); END ();
	free (l); free (lu); qfree (v, n);
}
static void c_change_objsense (void)
{ int k = nslot ('p'), s = nsense (), rc; BEGIN ("change_objsense"); rc = mpq_QSchange_objsense (P[k], s); ev_int ("rc", rc); END (); }
static void c_set_param (void)
{ int k = nslot ('p'), w = ni (), v = ni (), rc; BEGIN ("set_param"); rc = mpq_QSset_param (P[k], w, v); ev_int ("rc", rc); END (); }
static long reporter_calls;
static int count_reporter (void *dest, const char *s) { (void) dest; (void) s; reporter_calls++; return 0; }
/* set_reporter pK skip : install a counting reporter with the given interval */
static void c_set_reporter (void)
{ int k = nslot ('p'), sk = ni (); BEGIN ("set_reporter"); mpq_QSset_reporter (P[k], sk, (void *) count_reporter, 0); ev_int ("rc", 0); END (); }
static void c_set_param_num (void)
{ int k = nslot ('p'), w = ni (), rc; mpq_t v; mpq_init (v); nq (v); BEGIN ("set_param_num"); rc = mpq_QSset_param_EGlpNum (P[k], w, v); ev_int ("rc", rc); END (); mpq_clear (v); }
static void c_get_param (void)
{ int k = nslot ('p'), w = ni (), v = -777, rc; BEGIN ("get_param"); rc = mpq_QSget_param (P[k], w, &v); ev_int ("rc", rc); ev_int ("val", v); END (); }
static void c_get_param_num (void)
{ int k = nslot ('p'), w = ni (), rc; mpq_t v; mpq_init (v); BEGIN ("get_param_num"); rc = mpq_QSget_param_EGlpNum (P[k], w, &v); ev_int ("rc", rc); ev_q ("val", v); END (); mpq_clear (v); }

/* ---------------------------------------------------------------- queries */
static void free_names (char **a, int n) { int i; if (!a) return; for (i = 0; i < n; i++) free (a[i]); free (a); }

#define JUNKP ((void *) (size_t) 0x5a5a5a50)
static void emit_rows (const char *key, int rc, int num, int *cnt, int *beg, int *ind, mpq_t * val, mpq_t * rhs, char *sense, mpq_t * range,
											 char **names, int with_range)
{
	int nz = 0, i;
	ev_key (key); fputc ('{', EV); ev_first = 1;
	ev_int ("rc", rc);
	if (!rc)
	{
		if (cnt) for (i = 0; i < num; i++) nz += cnt[i];
		ev_iarr ("cnt", cnt, num); ev_iarr ("beg", beg, num); ev_iarr ("ind", ind, nz); ev_qarr ("val", val, nz);
		ev_qarr ("rhs", rhs, num); ev_chars ("sense", sense, num);
		if (with_range) ev_qarr ("range", range, num);
		ev_sarr ("names", names, num);
	}
	fputc ('}', EV); ev_first = 0;
}
static void free_rows (int num, int *cnt, int *beg, int *ind, mpq_t * val, mpq_t * rhs, char *sense, mpq_t * range, char **names)
{
	free (cnt); free (beg); free (ind); mpq_EGlpNumFreeArray (val); mpq_EGlpNumFreeArray (rhs); free (sense);
	mpq_EGlpNumFreeArray (range); free_names (names, num);
}
static void emit_cols (const char *key, int rc, int num, int *cnt, int *beg, int *ind, mpq_t * val, mpq_t * obj, mpq_t * lo, mpq_t * up, char **names)
{
	int nz = 0, i;
	ev_key (key); fputc ('{', EV); ev_first = 1;
	ev_int ("rc", rc);
	if (!rc)
	{
		if (cnt) for (i = 0; i < num; i++) nz += cnt[i];
		ev_iarr ("cnt", cnt, num); ev_iarr ("beg", beg, num); ev_iarr ("ind", ind, nz); ev_qarr ("val", val, nz);
		ev_qarr ("obj", obj, num); ev_qarr ("lower", lo, num); ev_qarr ("upper", up, num); ev_sarr ("names", names, num);
	}
	fputc ('}', EV); ev_first = 0;
}
static void free_cols (int num, int *cnt, int *beg, int *ind, mpq_t * val, mpq_t * obj, mpq_t * lo, mpq_t * up, char **names)
{
	free (cnt); free (beg); free (ind); mpq_EGlpNumFreeArray (val); mpq_EGlpNumFreeArray (obj); mpq_EGlpNumFreeArray (lo);
	mpq_EGlpNumFreeArray (up); free_names (names, num);
}

static void dump_body (mpq_QSprob p, int ext)
{
	int nc, nr, nz, rc, s = 0, i, j;
	char *nm;
	if (!p) { ev_int ("rc", 1); ev_int ("null", 1); return; }
	nc = mpq_QSget_colcount (p); nr = mpq_QSget_rowcount (p); nz = mpq_QSget_nzcount (p);
	ev_int ("rc", 0);
	ev_int ("ncols", nc); ev_int ("nrows", nr); ev_int ("nz", nz);
	rc = mpq_QSget_objsense (p, &s); ev_int ("objsense_rc", rc); ev_int ("objsense", s);
	nm = mpq_QSget_probname (p); ev_str ("probname", nm); free (nm);
	nm = mpq_QSget_objname (p); ev_str ("objname", nm); free (nm);
	{
		mpq_t *a = qalloc (nc), *b = qalloc (nc), *r = qalloc (nr);
		char *sen = malloc (nr + 1); int *fl = malloc ((nc + 1) * sizeof (int));
		char **cn = calloc (nc + 1, sizeof (char *)), **rn = calloc (nr + 1, sizeof (char *));
		rc = mpq_QSget_obj (p, a); ev_int ("obj_rc", rc); ev_qarr ("obj", a, nc);
		rc = mpq_QSget_rhs (p, r); ev_int ("rhs_rc", rc); ev_qarr ("rhs", r, nr);
		memset (sen, '?', nr);
		rc = mpq_QSget_senses (p, sen); ev_int ("senses_rc", rc); ev_chars ("senses", sen, nr);
		rc = mpq_QSget_bounds (p, a, b); ev_int ("bounds_rc", rc); ev_qarr ("lower", a, nc); ev_qarr ("upper", b, nc);
		for (j = 0; j < nc; j++) fl[j] = -9;
		rc = mpq_QSget_intflags (p, fl); ev_int ("intflags_rc", rc); ev_iarr ("intflags", fl, nc);
		rc = mpq_QSget_colnames (p, cn); ev_int ("colnames_rc", rc); ev_sarr ("colnames", cn, nc);
		rc = mpq_QSget_rownames (p, rn); ev_int ("rownames_rc", rc); ev_sarr ("rownames", rn, nr);
		if (ext)
		{
			int idx;
			/* name -> index lookups */
			ev_key ("colidx"); fputc ('[', EV);
			for (j = 0; j < nc; j++) { idx = -7; rc = cn[j] ? mpq_QSget_column_index (p, cn[j], &idx) : -1; fprintf (EV, "%s[%d,%d]", j ? "," : "", rc, idx); }
			fputc (']', EV);
			ev_key ("rowidx"); fputc ('[', EV);
			for (i = 0; i < nr; i++) { idx = -7; rc = rn[i] ? mpq_QSget_row_index (p, rn[i], &idx) : -1; fprintf (EV, "%s[%d,%d]", i ? "," : "", rc, idx); }
			fputc (']', EV);
			/* per entry coefficient */
			if ((long) nr * nc <= 2500)
			{
				mpq_t v; mpq_init (v);
				ev_key ("coef"); fputc ('[', EV);
				for (i = 0; i < nr; i++)
				{
					fprintf (EV, "%s[", i ? "," : "");
					for (j = 0; j < nc; j++) { rc = mpq_QSget_coef (p, i, j, &v); if (j) fputc (',', EV); if (rc) fprintf (EV, "null"); else put_q (v); }
					fputc (']', EV);
				}
				fputc (']', EV);
				mpq_clear (v);
			}
			/* per column bound */
			{
				mpq_t v; mpq_init (v);
				ev_key ("bound"); fputc ('[', EV);
				for (j = 0; j < nc; j++)
				{
					fprintf (EV, "%s[", j ? "," : "");
					rc = mpq_QSget_bound (p, j, 'L', &v); if (rc) fputs ("null", EV); else put_q (v);
					fputc (',', EV);
					rc = mpq_QSget_bound (p, j, 'U', &v); if (rc) fputs ("null", EV); else put_q (v);
					fputc (']', EV);
				}
				fputc (']', EV);
				mpq_clear (v);
			}
			/* list variants on the reversed index list */
			{
				int *rev = malloc ((nc + 1) * sizeof (int));
				for (j = 0; j < nc; j++) rev[j] = nc - 1 - j;
				rc = mpq_QSget_bounds_list (p, nc, rev, a, b); ev_int ("bl_rc", rc); ev_qarr ("bl_lower", a, nc); ev_qarr ("bl_upper", b, nc);
				rc = mpq_QSget_obj_list (p, nc, rev, a); ev_int ("ol_rc", rc); ev_qarr ("ol_obj", a, nc);
				{
					int *cnt = 0, *beg = 0, *ind = 0; mpq_t *val = 0, *o = 0, *l = 0, *u = 0; char **names = 0;
					rc = mpq_QSget_columns_list (p, nc, rev, &cnt, &beg, &ind, &val, &o, &l, &u, &names);
					emit_cols ("cols_rev", rc, nc, cnt, beg, ind, val, o, l, u, names);
					free_cols (nc, cnt, beg, ind, val, o, l, u, names);
				}
				free (rev);
			}
			{
				int *rev = malloc ((nr + 1) * sizeof (int));
				int *cnt = 0, *beg = 0, *ind = 0; mpq_t *val = 0, *rh = 0, *rg = 0; char *se = 0; char **names = 0;
				for (i = 0; i < nr; i++) rev[i] = nr - 1 - i;
				rc = mpq_QSget_ranged_rows_list (p, nr, rev, &cnt, &beg, &ind, &val, &rh, &se, &rg, &names);
				emit_rows ("rr_rev", rc, nr, cnt, beg, ind, val, rh, se, rg, names, 1);
				free_rows (nr, cnt, beg, ind, val, rh, se, rg, names);
				cnt = beg = ind = 0; val = rh = rg = 0; se = 0; names = 0;
				rc = mpq_QSget_rows_list (p, nr, rev, &cnt, &beg, &ind, &val, &rh, &se, &names);
				emit_rows ("rows_rev", rc, nr, cnt, beg, ind, val, rh, se, 0, names, 0);
				free_rows (nr, cnt, beg, ind, val, rh, se, 0, names);
				cnt = beg = ind = 0; val = rh = rg = 0; se = 0; names = 0;
				rc = mpq_QSget_rows (p, &cnt, &beg, &ind, &val, &rh, &se, &names);
				emit_rows ("rows", rc, nr, cnt, beg, ind, val, rh, se, 0, names, 0);
				free_rows (nr, cnt, beg, ind, val, rh, se, 0, names);
				free (rev);
			}
			{ int ic = -5; rc = mpq_QSget_intcount (p, &ic); ev_int ("intcount_rc", rc); ev_int ("intcount", ic); }
			{
				static const int ids[] = { QS_PARAM_PRIMAL_PRICING, QS_PARAM_DUAL_PRICING, QS_PARAM_SIMPLEX_DISPLAY, QS_PARAM_SIMPLEX_MAX_ITERATIONS,
					QS_PARAM_SIMPLEX_SCALING };
				ev_key ("params"); fputc ('[', EV);
				for (i = 0; i < 5; i++) { int v = -777; rc = mpq_QSget_param (p, ids[i], &v); fprintf (EV, "%s[%d,%d,%d]", i ? "," : "", ids[i], rc, v); }
				fputc (']', EV);
				{
					static const int nids[] = { QS_PARAM_SIMPLEX_MAX_TIME, QS_PARAM_OBJULIM, QS_PARAM_OBJLLIM };
					mpq_t v; mpq_init (v);
					ev_key ("nparams"); fputc ('[', EV);
					for (i = 0; i < 3; i++) { rc = mpq_QSget_param_EGlpNum (p, nids[i], &v); fprintf (EV, "%s[%d,%d,", i ? "," : "", nids[i], rc); put_q (v); fputc (']', EV); }
					fputc (']', EV);
					mpq_clear (v);
				}
			}
		}
		qfree (a, nc); qfree (b, nc); qfree (r, nr); free (sen); free (fl); free_names (cn, nc); free_names (rn, nr);
	}
	{
		/* the caller's pointers start out as junk, as the header's usage suggests: a successful call has to set every one of
		 * them, also on a problem without rows / columns (where nothing else can be observed) */
		int *cnt = 0, *beg = 0, *ind = 0; mpq_t *val = 0, *rh = 0, *rg = 0; char *se = 0; char **names = 0;
		if (nr == 0) { cnt = beg = ind = (int *) JUNKP; val = rh = rg = (mpq_t *) JUNKP; se = (char *) JUNKP; names = (char **) JUNKP; }
		rc = mpq_QSget_ranged_rows (p, &cnt, &beg, &ind, &val, &rh, &se, &rg, &names);
		if (nr == 0)
		{
			int unset = (cnt == (int *) JUNKP) + (beg == (int *) JUNKP) + (ind == (int *) JUNKP) + (val == (mpq_t *) JUNKP) + (rh == (mpq_t *) JUNKP)
				+ (rg == (mpq_t *) JUNKP) + (se == (char *) JUNKP) + (names == (char **) JUNKP);
			ev_int ("rr_unset", rc ? 0 : unset);
			if (cnt == (int *) JUNKP) cnt = 0; if (beg == (int *) JUNKP) beg = 0; if (ind == (int *) JUNKP) ind = 0; if (val == (mpq_t *) JUNKP) val = 0;
			if (rh == (mpq_t *) JUNKP) rh = 0; if (rg == (mpq_t *) JUNKP) rg = 0; if (se == (char *) JUNKP) se = 0; if (names == (char **) JUNKP) names = 0;
		}
		emit_rows ("rr", rc, nr, cnt, beg, ind, val, rh, se, rg, names, 1);
		free_rows (nr, cnt, beg, ind, val, rh, se, rg, names);
		if (nr == 0)
		{
			int unset;
			cnt = beg = ind = (int *) JUNKP; val = rh = (mpq_t *) JUNKP; se = (char *) JUNKP; names = (char **) JUNKP;
			rc = mpq_QSget_rows (p, &cnt, &beg, &ind, &val, &rh, &se, &names);
			unset = (cnt == (int *) JUNKP) + (beg == (int *) JUNKP) + (ind == (int *) JUNKP) + (val == (mpq_t *) JUNKP) + (rh == (mpq_t *) JUNKP)
				+ (se == (char *) JUNKP) + (names == (char **) JUNKP);
			ev_int ("rows_unset", rc ? 0 : unset);
			if (cnt == (int *) JUNKP) cnt = 0; if (beg == (int *) JUNKP) beg = 0; if (ind == (int *) JUNKP) ind = 0; if (val == (mpq_t *) JUNKP) val = 0;
			if (rh == (mpq_t *) JUNKP) rh = 0; if (se == (char *) JUNKP) se = 0; if (names == (char **) JUNKP) names = 0;
			free_rows (0, cnt, beg, ind, val, rh, se, 0, names);
		}
	}
	{
		int *cnt = 0, *beg = 0, *ind = 0; mpq_t *val = 0, *o = 0, *l = 0, *u = 0; char **names = 0;
		if (nc == 0) { cnt = beg = ind = (int *) JUNKP; val = o = l = u = (mpq_t *) JUNKP; names = (char **) JUNKP; }
		rc = mpq_QSget_columns (p, &cnt, &beg, &ind, &val, &o, &l, &u, &names);
		if (nc == 0)
		{
			int unset = (cnt == (int *) JUNKP) + (beg == (int *) JUNKP) + (ind == (int *) JUNKP) + (val == (mpq_t *) JUNKP) + (o == (mpq_t *) JUNKP)
				+ (l == (mpq_t *) JUNKP) + (u == (mpq_t *) JUNKP) + (names == (char **) JUNKP);
			ev_int ("cols_unset", rc ? 0 : unset);
			if (cnt == (int *) JUNKP) cnt = 0; if (beg == (int *) JUNKP) beg = 0; if (ind == (int *) JUNKP) ind = 0; if (val == (mpq_t *) JUNKP) val = 0;
			if (o == (mpq_t *) JUNKP) o = 0; if (l == (mpq_t *) JUNKP) l = 0; if (u == (mpq_t *) JUNKP) u = 0; if (names == (char **) JUNKP) names = 0;
		}
		emit_cols ("cols", rc, nc, cnt, beg, ind, val, o, l, u, names);
		free_cols (nc, cnt, beg, ind, val, o, l, u, names);
	}
}
/* writehash pK : what the two writers would put into a file right now (FNV-1a of the text) */
static void c_writehash (void)
{
	int k = nslot ('p'), f;
	static const char *fm[2] = { "MPS", "LP" };
	BEGIN ("writehash");
	for (f = 0; f < 2; f++)
	{
		FILE *t = tmpfile (); int rc, ch; unsigned long long h = 1469598103934665603ULL; long n = 0; char key[32];
		if (!t) die ("writehash: tmpfile");
		rc = P[k] ? mpq_QSwrite_prob_file (P[k], t, fm[f]) : 99;
		fflush (t); rewind (t);
		while ((ch = fgetc (t)) != EOF) { h ^= (unsigned char) ch; h *= 1099511628211ULL; n++; }
		fclose (t);
		snprintf (key, sizeof key, "%s_rc", fm[f]); ev_int (key, rc);
		snprintf (key, sizeof key, "%s_len", fm[f]); ev_int (key, n);
		snprintf (key, sizeof key, "%s_hash", fm[f]); ev_key (key); fprintf (EV, "\"%016llx\"", h);
	}
	END ();
}
static void c_dump (void) { int k = nslot ('p'); BEGIN ("dump"); dump_body (P[k], 0); END (); }
static void c_dumpx (void) { int k = nslot ('p'); BEGIN ("dumpx"); dump_body (P[k], 1); END (); }

/* stored solution through every accessor */
static void dumpsol_body (mpq_QSprob p, int named)
{
	int nc, nr, rc, st = -1, i;
	mpq_t v, *x, *pi, *sl, *rcv;
	if (!p) { ev_int ("rc", 1); return; }
	nc = mpq_QSget_colcount (p); nr = mpq_QSget_rowcount (p);
	mpq_init (v);
	x = qalloc (nc); pi = qalloc (nr); sl = qalloc (nr); rcv = qalloc (nc);
	ev_int ("rc", 0);
	ev_int ("ncols", nc); ev_int ("nrows", nr);
	rc = mpq_QSget_status (p, &st); ev_int ("status_rc", rc); ev_int ("status", st);
	rc = mpq_QSget_objval (p, &v); ev_int ("objval_rc", rc); if (!rc) ev_q ("objval", v);
	rc = mpq_QSget_x_array (p, x); ev_int ("x_rc", rc); if (!rc) ev_qarr ("x", x, nc);
	rc = mpq_QSget_pi_array (p, pi); ev_int ("pi_rc", rc); if (!rc) ev_qarr ("pi", pi, nr);
	rc = mpq_QSget_slack_array (p, sl); ev_int ("slack_rc", rc); if (!rc) ev_qarr ("slack", sl, nr);
	rc = mpq_QSget_rc_array (p, rcv); ev_int ("rcv_rc", rc); if (!rc) ev_qarr ("rcv", rcv, nc);
	rc = mpq_QSget_solution (p, &v, x, pi, sl, rcv); ev_int ("sol_rc", rc);
	if (!rc) { ev_q ("sol_val", v); ev_qarr ("sol_x", x, nc); ev_qarr ("sol_pi", pi, nr); ev_qarr ("sol_slack", sl, nr); ev_qarr ("sol_rcv", rcv, nc); }
	if (named)
	{
		char **cn = calloc (nc + 1, sizeof (char *)), **rn = calloc (nr + 1, sizeof (char *));
		int r1 = mpq_QSget_colnames (p, cn), r2 = mpq_QSget_rownames (p, rn);
		if (!r1)
		{
			ev_key ("named_x"); fputc ('[', EV);
			for (i = 0; i < nc; i++) { rc = mpq_QSget_named_x (p, cn[i], &v); fprintf (EV, "%s[%d,", i ? "," : "", rc); if (rc) fputs ("null", EV); else put_q (v); fputc (']', EV); }
			fputc (']', EV);
			ev_key ("named_rc"); fputc ('[', EV);
			for (i = 0; i < nc; i++) { rc = mpq_QSget_named_rc (p, cn[i], &v); fprintf (EV, "%s[%d,", i ? "," : "", rc); if (rc) fputs ("null", EV); else put_q (v); fputc (']', EV); }
			fputc (']', EV);
		}
		if (!r2)
		{
			ev_key ("named_pi"); fputc ('[', EV);
			for (i = 0; i < nr; i++) { rc = mpq_QSget_named_pi (p, rn[i], &v); fprintf (EV, "%s[%d,", i ? "," : "", rc); if (rc) fputs ("null", EV); else put_q (v); fputc (']', EV); }
			fputc (']', EV);
			ev_key ("named_slack"); fputc ('[', EV);
			for (i = 0; i < nr; i++) { rc = mpq_QSget_named_slack (p, rn[i], &v); fprintf (EV, "%s[%d,", i ? "," : "", rc); if (rc) fputs ("null", EV); else put_q (v); fputc (']', EV); }
			fputc (']', EV);
		}
		free_names (cn, nc); free_names (rn, nr);
	}
	{
		int it[5] = { -1, -1, -1, -1, -1 };
		rc = mpq_QSget_itcnt (p, it, it + 1, it + 2, it + 3, it + 4); ev_int ("itcnt_rc", rc); ev_iarr ("itcnt", it, 5);
	}
	{
		char *cs = malloc (nc + 1), *rs = malloc (nr + 1);
		memset (cs, '?', nc); memset (rs, '?', nr);
		rc = mpq_QSget_basis_array (p, cs, rs); ev_int ("bas_rc", rc);
		if (!rc) { ev_chars ("cstat", cs, nc); ev_chars ("rstat", rs, nr); }
		free (cs); free (rs);
	}
	if (named)
	{
		/* the working basis next to the stored one: which variable is basic in which row */
		int *ord = malloc ((nr + 1) * sizeof (int)), i2;
		for (i2 = 0; i2 < nr; i2++) ord[i2] = -99;
		rc = mpq_QSget_basis_order (p, ord); ev_int ("border_rc", rc);
		if (!rc) ev_iarr ("border", ord, nr);
		free (ord);
	}
	mpq_clear (v); qfree (x, nc); qfree (pi, nr); qfree (sl, nr); qfree (rcv, nc);
}
static void c_dumpsol (void) { int k = nslot ('p'); int named = more ()? ni () : 0; BEGIN ("dumpsol"); dumpsol_body (P[k], named); END (); }

/* individual queries with raw arguments (C07 probes) */
static void c_get_coef (void)
{ int k = nslot ('p'), r = ni (), c = ni (), rc; mpq_t v; mpq_init (v); BEGIN ("get_coef"); rc = mpq_QSget_coef (P[k], r, c, &v); ev_int ("rc", rc); if (!rc) ev_q ("val", v); END (); mpq_clear (v); }
static void c_get_bound (void)
{ int k = nslot ('p'), i = ni (), lu = nchr (), rc; mpq_t v; mpq_init (v); BEGIN ("get_bound"); rc = mpq_QSget_bound (P[k], i, lu, &v); ev_int ("rc", rc); if (!rc) ev_q ("val", v); END (); mpq_clear (v); }
static void c_get_bounds_list (void)
{
	int k = nslot ('p'), n, rc; int *l = read_ilist (&n); mpq_t *a = qalloc (n), *b = qalloc (n);
	BEGIN ("get_bounds_list"); rc = mpq_QSget_bounds_list (P[k], n, l, a, b); ev_int ("rc", rc); if (!rc) { ev_qarr ("lower", a, n); ev_qarr ("upper", b, n); } END ();
	free (l); qfree (a, n); qfree (b, n);
}
static void c_get_obj_list (void)
{
	int k = nslot ('p'), n, rc; int *l = read_ilist (&n); mpq_t *a = qalloc (n);
	BEGIN ("get_obj_list"); rc = mpq_QSget_obj_list (P[k], n, l, a); ev_int ("rc", rc); if (!rc) ev_qarr ("obj", a, n); END ();
	free (l); qfree (a, n);
}
static void c_get_rows_list (void)
{
	int k = nslot ('p'), n, rc; int *l = read_ilist (&n);
	int *cnt = 0, *beg = 0, *ind = 0; mpq_t *val = 0, *rh = 0; char *se = 0; char **names = 0;
	BEGIN ("get_rows_list"); rc = mpq_QSget_rows_list (P[k], n, l, &cnt, &beg, &ind, &val, &rh, &se, &names);
	ev_int ("rc", rc); emit_rows ("rows", rc, n, cnt, beg, ind, val, rh, se, 0, names, 0); END ();
	if (!rc) free_rows (n, cnt, beg, ind, val, rh, se, 0, names);
	free (l);
}
static void c_get_ranged_rows_list (void)
{
	int k = nslot ('p'), n, rc; int *l = read_ilist (&n);
	int *cnt = 0, *beg = 0, *ind = 0; mpq_t *val = 0, *rh = 0, *rg = 0; char *se = 0; char **names = 0;
	BEGIN ("get_ranged_rows_list"); rc = mpq_QSget_ranged_rows_list (P[k], n, l, &cnt, &beg, &ind, &val, &rh, &se, &rg, &names);
	ev_int ("rc", rc); emit_rows ("rows", rc, n, cnt, beg, ind, val, rh, se, rg, names, 1); END ();
	if (!rc) free_rows (n, cnt, beg, ind, val, rh, se, rg, names);
	free (l);
}
static void c_get_columns_list (void)
{
	int k = nslot ('p'), n, rc; int *l = read_ilist (&n);
	int *cnt = 0, *beg = 0, *ind = 0; mpq_t *val = 0, *o = 0, *lo = 0, *up = 0; char **names = 0;
	BEGIN ("get_columns_list"); rc = mpq_QSget_columns_list (P[k], n, l, &cnt, &beg, &ind, &val, &o, &lo, &up, &names);
	ev_int ("rc", rc); emit_cols ("cols", rc, n, cnt, beg, ind, val, o, lo, up, names); END ();
	if (!rc) free_cols (n, cnt, beg, ind, val, o, lo, up, names);
	free (l);
}
static void c_get_column_index (void)
{ int k = nslot ('p'), idx = -7, rc; char *nm = nt (); BEGIN ("get_column_index"); rc = mpq_QSget_column_index (P[k], nm, &idx); ev_int ("rc", rc); ev_int ("idx", idx); END (); }
static void c_get_row_index (void)
{ int k = nslot ('p'), idx = -7, rc; char *nm = nt (); BEGIN ("get_row_index"); rc = mpq_QSget_row_index (P[k], nm, &idx); ev_int ("rc", rc); ev_int ("idx", idx); END (); }
#define GETNAMED(fn) static void c_##fn (void) { int k = nslot ('p'), rc; char *nm = nt (); mpq_t v; mpq_init (v); \
	BEGIN (#fn); rc = mpq_QS##fn (P[k], nm, &v); ev_int ("rc", rc); if (!rc) ev_q ("val", v); END (); mpq_clear (v); }
GETNAMED (get_named_x)
GETNAMED (get_named_rc)
GETNAMED (get_named_pi)
GETNAMED (get_named_slack)

/* ---------------------------------------------------------------- solves */
static void emit_basis (const char *key, QSbasis * b)
{
	ev_key (key);
	if (!b) { fputs ("null", EV); return; }
	fputc ('{', EV); ev_first = 1;
	ev_int ("nstruct", b->nstruct); ev_int ("nrows", b->nrows);
	ev_chars ("cstat", b->cstat, b->nstruct); ev_chars ("rstat", b->rstat, b->nrows);
	fputc ('}', EV); ev_first = 0;
}
static int nalgo (void)
{
	char *t = nt ();
	if (!strcmp (t, "primal")) return PRIMAL_SIMPLEX;
	if (!strcmp (t, "dual")) return DUAL_SIMPLEX;
	return atoi (t);
}
/* solve_exact pK primal|dual bK|- [xy|x|y|-] */
static void c_solve_exact (void)
{
	int k = nslot ('p'), algo = nalgo (), bk = nbslot (), rc, status = -1, nc, nr;
	const char *fl = more ()? nt () : "xy";
	mpq_t *x = 0, *y = 0;
	if (!P[k]) { qfree (x, 0); BEGIN ("solve_exact"); ev_int ("rc", 99); ev_int ("null", 1); END (); return; }
	nc = mpq_QSget_colcount (P[k]); nr = mpq_QSget_rowcount (P[k]);
	if (strchr (fl, 'x')) x = qalloc (nc + nr);
	if (strchr (fl, 'y')) y = qalloc (nr);
	/* output arrays as a caller re-using them would hand them over: full of old values, every entry has to be written */
	{ int t; if (x) for (t = 0; t < nc + nr; t++) mpq_set_si (x[t], 7 + t, 3); if (y) for (t = 0; t < nr; t++) mpq_set_si (y[t], -5 - t, 11); }
	if (bk >= 0 && !B[bk]) B[bk] = calloc (1, sizeof (QSbasis));
	BEGIN ("solve_exact");
	rc = QSexact_solver (P[k], x, y, bk >= 0 ? B[bk] : 0, algo, &status);
	ev_int ("rc", rc); ev_int ("status", status);
	ev_int ("ncols", nc); ev_int ("nrows", nr);
	if (x) ev_qarr ("x", x, nc + nr);
	if (y) ev_qarr ("y", y, nr);
	if (bk >= 0) emit_basis ("basis", B[bk]);
	END ();
	qfree (x, nc + nr); qfree (y, nr);
}
static void c_opt_primal (void)
{ int k = nslot ('p'), st = -1, rc; BEGIN ("opt_primal"); rc = mpq_QSopt_primal (P[k], &st); ev_int ("rc", rc); ev_int ("status", st); END (); }
static void c_opt_dual (void)
{ int k = nslot ('p'), st = -1, rc; BEGIN ("opt_dual"); rc = mpq_QSopt_dual (P[k], &st); ev_int ("rc", rc); ev_int ("status", st); END (); }
static void c_pivotin_row (void)
{ int k = nslot ('p'), n, rc; int *l = read_ilist (&n); BEGIN ("pivotin_row"); rc = mpq_QSopt_pivotin_row (P[k], n, l); ev_int ("rc", rc); END (); free (l); }
/* strongbranch pK n idx.. : 5 dual simplex iterations per branch, no objective bound */
static void c_strongbranch (void)
{
	int k = nslot ('p'), n, rc; int *l = read_ilist (&n); mpq_t *dn = qalloc (n + 1), *up = qalloc (n + 1), ob;
	mpq_init (ob); mpq_set_si (ob, 1000000, 1);
	BEGIN ("strongbranch"); rc = mpq_QSopt_strongbranch (P[k], n, l, 0, dn, up, 5, ob); ev_int ("rc", rc); END ();
	mpq_clear (ob); qfree (dn, n + 1); qfree (up, n + 1); free (l);
}
static void c_pivotin_col (void)
{ int k = nslot ('p'), n, rc; int *l = read_ilist (&n); BEGIN ("pivotin_col"); rc = mpq_QSopt_pivotin_col (P[k], n, l); ev_int ("rc", rc); END (); free (l); }
static void c_get_infeas (void)
{
	int k = nslot ('p'), rc, nr = P[k] ? mpq_QSget_rowcount (P[k]) : 0; mpq_t *y = qalloc (nr);
	BEGIN ("get_infeas"); rc = mpq_QSget_infeas_array (P[k], y); ev_int ("rc", rc); if (!rc) ev_qarr ("y", y, nr); END ();
	qfree (y, nr);
}

/* ---------------------------------------------------------------- bases */
static void c_get_basis (void)
{
	int k = nslot ('p'), b = nslot ('b');
	BEGIN ("get_basis");
	free_slot_b (b);
	B[b] = mpq_QSget_basis (P[k]);
	ev_int ("rc", B[b] ? 0 : 1); emit_basis ("basis", B[b]);
	END ();
}
/* make_basis bK nstruct nrows cstat|- rstat|- : builds a QSbasis in harness memory */
static void c_make_basis (void)
{
	int b = nslot ('b'), ns = ni (), nr = ni (); char *cs = nt (), *rs = nt ();
	free_slot_b (b);
	B[b] = calloc (1, sizeof (QSbasis));
	B[b]->nstruct = ns; B[b]->nrows = nr;
	if (strcmp (cs, "-")) { B[b]->cstat = malloc (strlen (cs) + 1); memcpy (B[b]->cstat, cs, strlen (cs) + 1); }
	if (strcmp (rs, "-")) { B[b]->rstat = malloc (strlen (rs) + 1); memcpy (B[b]->rstat, rs, strlen (rs) + 1); }
	if ((B[b]->cstat && (int) strlen (cs) < ns) || (B[b]->rstat && (int) strlen (rs) < nr)) die ("make_basis: status string shorter than size");
	if ((!B[b]->cstat && ns > 0) || (!B[b]->rstat && nr > 0)) die ("make_basis: missing status array");
}
static void c_dump_basis (void) { int b = nslot ('b'); BEGIN ("dump_basis"); ev_int ("rc", B[b] ? 0 : 1); emit_basis ("basis", B[b]); END (); }
static void c_free_basis (void) { int b = nslot ('b'); BEGIN ("free_basis"); free_slot_b (b); ev_int ("rc", 0); END (); }
static void c_load_basis (void)
{ int k = nslot ('p'), b = nslot ('b'), rc; if (!B[b]) { BEGIN ("load_basis"); ev_int ("rc", 99); ev_int ("null", 1); END (); return; } BEGIN ("load_basis"); rc = mpq_QSload_basis (P[k], B[b]); ev_int ("rc", rc); END (); }
static void c_load_basis_array (void)
{
	int k = nslot ('p'), rc; char *cs = nt (), *rs = nt ();
	if (P[k] && ((int) strlen (cs) < mpq_QSget_colcount (P[k]) || (int) strlen (rs) < mpq_QSget_rowcount (P[k])))
		if (strcmp (cs, "-") || strcmp (rs, "-")) die ("load_basis_array: arrays shorter than problem");
	BEGIN ("load_basis_array"); rc = mpq_QSload_basis_array (P[k], strcmp (cs, "-") ? cs : (char *) "", strcmp (rs, "-") ? rs : (char *) ""); ev_int ("rc", rc); END ();
}
static void c_get_basis_array (void)
{
	int k = nslot ('p'), rc, nc = P[k] ? mpq_QSget_colcount (P[k]) : 0, nr = P[k] ? mpq_QSget_rowcount (P[k]) : 0;
	char *cs = malloc (nc + 1), *rs = malloc (nr + 1);
	memset (cs, '?', nc); memset (rs, '?', nr);
	BEGIN ("get_basis_array"); rc = mpq_QSget_basis_array (P[k], cs, rs); ev_int ("rc", rc);
	if (!rc) { ev_chars ("cstat", cs, nc); ev_chars ("rstat", rs, nr); }
	END (); free (cs); free (rs);
}
static void c_get_basis_norms (void)
{
	int k = nslot ('p'), rc, nc = P[k] ? mpq_QSget_colcount (P[k]) : 0, nr = P[k] ? mpq_QSget_rowcount (P[k]) : 0;
	char *cs = malloc (nc + 1), *rs = malloc (nr + 1); mpq_t *nm = qalloc (nr);
	memset (cs, '?', nc); memset (rs, '?', nr);
	BEGIN ("get_basis_norms"); rc = mpq_QSget_basis_and_row_norms_array (P[k], cs, rs, nm); ev_int ("rc", rc);
	if (!rc) { ev_chars ("cstat", cs, nc); ev_chars ("rstat", rs, nr); ev_qarr ("norms", nm, nr); }
	END (); free (cs); free (rs); qfree (nm, nr);
}
static void c_load_basis_norms (void)
{
	int k = nslot ('p'), rc, n, i; char *cs = nt (), *rs = nt (); mpq_t *nm;
	n = ni (); nm = qalloc (n);
	for (i = 0; i < n; i++) nq (nm[i]);
	/* n == 0 stands for a NULL norm array (an invalid argument the library has to refuse) */
	if (P[k] && ((int) strlen (cs) < mpq_QSget_colcount (P[k]) || (int) strlen (rs) < mpq_QSget_rowcount (P[k]) || (n != 0 && n < mpq_QSget_rowcount (P[k]))))
		die ("load_basis_norms: arrays shorter than problem");
	BEGIN ("load_basis_norms"); rc = mpq_QSload_basis_and_row_norms_array (P[k], cs, rs, n ? nm : 0); ev_int ("rc", rc); END ();
	qfree (nm, n);
}
/* roundtrip_basis_norms pK : the save / restore pattern of a branching host: fetch basis + dual steepest-edge row norms, load them back */
static void c_roundtrip_basis_norms (void)
{
	int k = nslot ('p'), rc, rc2 = -1, nc = P[k] ? mpq_QSget_colcount (P[k]) : 0, nr = P[k] ? mpq_QSget_rowcount (P[k]) : 0;
	char *cs = malloc (nc + 1), *rs = malloc (nr + 1); mpq_t *nm = qalloc (nr);
	memset (cs, '?', nc); memset (rs, '?', nr);
	BEGIN ("roundtrip_basis_norms");
	rc = mpq_QSget_basis_and_row_norms_array (P[k], cs, rs, nm); ev_int ("rc", rc);
	if (!rc) { rc2 = mpq_QSload_basis_and_row_norms_array (P[k], cs, rs, nm); ev_int ("rc_load", rc2); ev_chars ("cstat", cs, nc); ev_chars ("rstat", rs, nr); }
	END (); free (cs); free (rs); qfree (nm, nr);
}
static void c_compute_row_norms (void) { int k = nslot ('p'), rc; BEGIN ("compute_row_norms"); rc = mpq_QScompute_row_norms (P[k]); ev_int ("rc", rc); END (); }
static void c_test_row_norms (void) { int k = nslot ('p'), rc; BEGIN ("test_row_norms"); rc = mpq_QStest_row_norms (P[k]); ev_int ("rc", rc); END (); }
static void c_write_basis (void)
{
	int k = nslot ('p'), b = nbslot (), rc; char *f = nt ();
	if (b >= 0 && !B[b]) { BEGIN ("write_basis"); ev_int ("rc", 99); ev_int ("null", 1); END (); return; }
	BEGIN ("write_basis"); rc = mpq_QSwrite_basis (P[k], b >= 0 ? B[b] : 0, f); ev_int ("rc", rc); END ();
}
static void c_read_basis (void)
{
	int k = nslot ('p'), b; char *f = nt (); b = nslot ('b');
	BEGIN ("read_basis"); free_slot_b (b); B[b] = mpq_QSread_basis (P[k], f); ev_int ("rc", B[b] ? 0 : 1); emit_basis ("basis", B[b]); END ();
}
static void c_read_and_load_basis (void)
{ int k = nslot ('p'), rc; char *f = nt (); BEGIN ("read_and_load_basis"); rc = mpq_QSread_and_load_basis (P[k], f); ev_int ("rc", rc); END (); }
static void c_basis_optimalstatus (void)
{
	int k = nslot ('p'), b = nslot ('b'), rc; char res = 0x7f;
	if (!B[b] || !P[k]) { BEGIN ("basis_optimalstatus"); ev_int ("rc", 99); ev_int ("null", 1); END (); return; }
	BEGIN ("basis_optimalstatus"); rc = QSexact_basis_optimalstatus (P[k], B[b], &res, 0 + 10000); ev_int ("rc", rc); ev_int ("result", res); END ();
}
static void c_basis_dualstatus (void)
{
	int k = nslot ('p'), b = nslot ('b'), rc; char res = 0x7f; mpq_t d;
	if (!B[b] || !P[k]) { BEGIN ("basis_dualstatus"); ev_int ("rc", 99); ev_int ("null", 1); END (); return; }
	mpq_init (d);
	BEGIN ("basis_dualstatus"); rc = QSexact_basis_dualstatus (P[k], B[b], &res, &d, 10000); ev_int ("rc", rc); ev_int ("result", res); ev_q ("dobjval", d); END ();
	mpq_clear (d);
}
/* verify pK bK useprestep [vec] : vec=1 passes the double solution of a fresh dbl solve as approximate vectors */
static void c_verify (void)
{
	int k = nslot ('p'), b = nslot ('b'), pre = ni (), vec = more ()? ni () : 0, rc; char res = 0x7f; mpq_t d;
	double *xd = 0, *yd = 0; int nc, nr, i;
	if (!B[b] || !P[k]) { BEGIN ("verify"); ev_int ("rc", 99); ev_int ("null", 1); END (); return; }
	nc = mpq_QSget_colcount (P[k]); nr = mpq_QSget_rowcount (P[k]);
	if (vec)
	{
		/* the approximate primal vector covers structurals and logicals (internal column count) */
		mpq_t *x = qalloc (nc), *y = qalloc (nr), *sl = qalloc (nr);
		xd = calloc (nc + nr + 1, sizeof (double)); yd = calloc (nr + 1, sizeof (double));
		if (!mpq_QSget_x_array (P[k], x) && !mpq_QSget_pi_array (P[k], y) && !mpq_QSget_slack_array (P[k], sl))
		{
			for (i = 0; i < nc; i++) xd[i] = mpq_get_d (x[i]);
			for (i = 0; i < nr; i++) xd[nc + i] = mpq_get_d (sl[i]);
			for (i = 0; i < nr; i++) yd[i] = mpq_get_d (y[i]);
		}
		qfree (x, nc); qfree (y, nr); qfree (sl, nr);
	}
	mpq_init (d);
	BEGIN ("verify"); rc = QSexact_verify (P[k], B[b], pre, xd, yd, &res, &d, 10000); ev_int ("rc", rc); ev_int ("result", res); ev_q ("dobjval", d); END ();
	mpq_clear (d); free (xd); free (yd);
}

/* ---------------------------------------------------------------- tableau */
static void emit_logsign (mpq_QSprob p)
{
	int i, nr = p->qslp->nrows;
	ev_key ("logcoef"); fputc ('[', EV);
	for (i = 0; i < nr; i++)
	{
		int c = p->qslp->rowmap[i];
		if (i) fputc (',', EV);
		if (p->qslp->A.matcnt[c] == 1 && p->qslp->A.matind[p->qslp->A.matbeg[c]] == i) put_q (p->qslp->A.matval[p->qslp->A.matbeg[c]]);
		else fputs ("null", EV);
	}
	fputc (']', EV);
}
static void tableau_common (int direct)
{
	int k = nslot ('p'), nc, nr, i, rc; int *order; mpq_t *bi, *tr;
	if (!P[k]) { BEGIN (direct ? "tableau_direct" : "tableau"); ev_int ("rc", 99); ev_int ("null", 1); END (); return; }
	nc = mpq_QSget_colcount (P[k]); nr = mpq_QSget_rowcount (P[k]);
	order = malloc ((nr + 1) * sizeof (int)); bi = qalloc (nr); tr = qalloc (nc + nr);
	BEGIN (direct ? "tableau_direct" : "tableau");
	for (i = 0; i < nr; i++) order[i] = -99;
	rc = direct ? mpq_ILLlib_basis_order (P[k]->lp, order) : mpq_QSget_basis_order (P[k], order);
	ev_int ("rc", rc); ev_int ("ncols", nc); ev_int ("nrows", nr);
	if (!rc)
	{
		ev_iarr ("order", order, nr);
		emit_logsign (P[k]);
		ev_key ("rows"); fputc ('[', EV);
		for (i = 0; i < nr; i++)
		{
			int r1, r2;
			if (direct) { r1 = mpq_ILLlib_tableau (P[k]->lp, i, bi, tr); r2 = r1; }
			else { r1 = mpq_QSget_binv_row (P[k], i, bi); r2 = mpq_QSget_tableau_row (P[k], i, tr); }
			fprintf (EV, "%s{", i ? "," : ""); ev_first = 1;
			ev_int ("r1", r1); ev_int ("r2", r2);
			if (!r1) ev_qarr ("binv", bi, nr);
			if (!r2) ev_qarr ("tab", tr, nc + nr);
			fputc ('}', EV);
		}
		fputc (']', EV); ev_first = 0;
	}
	END ();
	free (order); qfree (bi, nr); qfree (tr, nc + nr);
}
static void c_tableau (void) { tableau_common (0); }
static void c_tableau_direct (void) { tableau_common (1); }
static void c_get_binv_row (void)
{
	int k = nslot ('p'), i = ni (), rc, nr = P[k] ? mpq_QSget_rowcount (P[k]) : 0; mpq_t *bi = qalloc (nr);
	BEGIN ("get_binv_row"); rc = mpq_QSget_binv_row (P[k], i, bi); ev_int ("rc", rc); if (!rc) ev_qarr ("binv", bi, nr); END (); qfree (bi, nr);
}
static void c_get_tableau_row (void)
{
	int k = nslot ('p'), i = ni (), rc, n = P[k] ? mpq_QSget_rowcount (P[k]) + mpq_QSget_colcount (P[k]) : 0; mpq_t *tr = qalloc (n);
	BEGIN ("get_tableau_row"); rc = mpq_QSget_tableau_row (P[k], i, tr); ev_int ("rc", rc); if (!rc) ev_qarr ("tab", tr, n); END (); qfree (tr, n);
}

/* ---------------------------------------------------------------- file I/O */
static void c_write_prob (void)
{
	int k = nslot ('p'), rc; char *f = nt (), *ty = nt ();
	BEGIN ("write_prob"); rc = mpq_QSwrite_prob (P[k], f, ty); ev_int ("rc", rc); END ();
}
static void c_write_prob_file (void)
{
	int k = nslot ('p'), rc; char *f = nt (), *ty = nt (); FILE *fp = fopen (f, "w");
	if (!fp) die ("cannot open output file");
	BEGIN ("write_prob_file"); rc = mpq_QSwrite_prob_file (P[k], fp, ty); ev_int ("rc", rc); END ();
	fclose (fp);
}
static void c_read_prob (void)
{
	int k = nslot ('p'); char *f = nt (), *ty = nt ();
	BEGIN ("read_prob"); free_slot_p (k); P[k] = mpq_QSread_prob (f, ty); ev_int ("rc", P[k] ? 0 : 1); END ();
}
typedef struct { char *data; size_t len, pos; long calls; } membuf;
static char *mem_gets (char *s, int size, void *src)
{
	membuf *m = (membuf *) src; int n = 0;
	m->calls++;
	if (m->pos >= m->len || size < 2) return 0;
	while (n < size - 1 && m->pos < m->len) { char c = m->data[m->pos++]; s[n++] = c; if (c == '\n') break; }
	s[n] = 0;
	return s;
}
/* get_prob pK file LP|MPS collector(0|1) : parse through a caller supplied line reader (+ error memory) */
static void c_get_prob (void)
{
	int k = nslot ('p'); char *f = nt (), *ty = nt (); int coll = more ()? ni () : 1;
	membuf m; FILE *fp = fopen (f, "rb"); long sz;
	mpq_QSline_reader rd; mpq_QSerror_memory mem = 0; mpq_QSerror_collector ec = 0;
	if (!fp) die ("get_prob: cannot open file");
	fseek (fp, 0, SEEK_END); sz = ftell (fp); fseek (fp, 0, SEEK_SET);
	m.data = malloc (sz + 1); m.len = fread (m.data, 1, sz, fp); m.pos = 0; m.calls = 0; fclose (fp);
	BEGIN ("get_prob");
	free_slot_p (k);
	rd = mpq_QSline_reader_new ((void *) mem_gets, &m);
	if (coll) { mem = mpq_QSerror_memory_create (coll == 2 ? 0 : 1); ec = mpq_QSerror_memory_collector_new (mem); mpq_QSline_reader_set_error_collector (rd, ec); }
	P[k] = mpq_QSget_prob (rd, "fromreader", ty);
	ev_int ("rc", P[k] ? 0 : 1);
	ev_int ("linecalls", m.calls);
	if (mem)
	{
		int n = mpq_QSerror_memory_get_nerrors (mem), i = 0; mpq_QSformat_error e;
		ev_int ("nerrors", n);
		ev_key ("errors"); fputc ('[', EV);
		for (e = mpq_QSerror_memory_get_last_error (mem); e && i < 8; e = mpq_QSerror_memory_get_prev_error (e), i++)
		{
			fprintf (EV, "%s[%d,%d,%d,", i ? "," : "", mpq_QSerror_get_type (e), mpq_QSerror_get_line_number (e), mpq_QSerror_get_pos (e));
			put_str (mpq_QSerror_get_desc (e), -1); fputc (']', EV);
		}
		fputc (']', EV);
		/* print every collected error to a stream that belongs to the caller (twice): it has to stay open */
		if (n > 0)
		{
			FILE *own = fopen ("/dev/null", "w"); int fd, closed = 0, printed = 0;
			if (!own) die ("get_prob: /dev/null");
			fd = fileno (own);
			for (i = 0, e = mpq_QSerror_memory_get_last_error (mem); e && i < 16 && !closed; e = mpq_QSerror_memory_get_prev_error (e), i++)
			{
				mpq_QSerror_print (own, e); printed++;
				if (fcntl (fd, F_GETFD) == -1) { closed = 1; break; }
				mpq_QSerror_print (own, e); printed++;
				if (fcntl (fd, F_GETFD) == -1) closed = 1;
			}
			ev_int ("printed", printed); ev_int ("print_closed_stream", closed);
			if (!closed) fclose (own);				/* otherwise the FILE is gone already: touching it again would be our own bug */
		}
	}
	END ();
	mpq_QSline_reader_free (rd);
	if (ec) mpq_QSerror_collector_free (ec);
	if (mem) mpq_QSerror_memory_free (mem);
	free (m.data);
}

/* ---------------------------------------------------------------- copies */
static void c_copy (void)
{
	int k = nslot ('p'), d = nslot ('p'); char *nm = nname ();
	BEGIN ("copy"); if (d != k) free_slot_p (d);
	{ mpq_QSprob q = mpq_QScopy_prob (P[k], nm); if (d == k) free_slot_p (d); P[d] = q; }
	ev_int ("rc", P[d] ? 0 : 1); END ();
}
static void put_d (double d) { fprintf (EV, "\"%a\"", d); }
static void c_copy_dbl (void)
{
	int k = nslot ('p'), j, i, nc, nr; dbl_QSdata *q;
	BEGIN ("copy_dbl");
	if (!P[k]) { ev_int ("rc", 99); ev_int ("null", 1); END (); return; }
	q = QScopy_prob_mpq_dbl (P[k], "dblcopy");
	ev_int ("rc", q ? 0 : 1);
	if (q)
	{
		int *cnt = 0, *beg = 0, *ind = 0; double *val = 0, *o = 0, *l = 0, *u = 0; char **names = 0; int rc, nz = 0, s = 0;
		double *rhs; char *sen;
		nc = dbl_QSget_colcount (q); nr = dbl_QSget_rowcount (q);
		ev_int ("ncols", nc); ev_int ("nrows", nr); ev_int ("nz", dbl_QSget_nzcount (q));
		dbl_QSget_objsense (q, &s); ev_int ("objsense", s);
		ev_key ("inf"); put_d (dbl_ILL_MAXDOUBLE);
		rc = dbl_QSget_columns (q, &cnt, &beg, &ind, &val, &o, &l, &u, &names);
		ev_int ("cols_rc", rc);
		if (!rc && nc)
		{
			for (j = 0; j < nc; j++) nz += cnt[j];
			ev_iarr ("cnt", cnt, nc); ev_iarr ("beg", beg, nc); ev_iarr ("ind", ind, nz);
			ev_key ("val"); fputc ('[', EV); for (i = 0; i < nz; i++) { if (i) fputc (',', EV); put_d (val[i]); } fputc (']', EV);
			ev_key ("obj"); fputc ('[', EV); for (i = 0; i < nc; i++) { if (i) fputc (',', EV); put_d (o[i]); } fputc (']', EV);
			ev_key ("lower"); fputc ('[', EV); for (i = 0; i < nc; i++) { if (i) fputc (',', EV); put_d (l[i]); } fputc (']', EV);
			ev_key ("upper"); fputc ('[', EV); for (i = 0; i < nc; i++) { if (i) fputc (',', EV); put_d (u[i]); } fputc (']', EV);
			ev_sarr ("names", names, nc);
		}
		free (cnt); free (beg); free (ind); dbl_EGlpNumFreeArray (val); dbl_EGlpNumFreeArray (o); dbl_EGlpNumFreeArray (l); dbl_EGlpNumFreeArray (u);
		free_names (names, nc);
		rhs = calloc (nr + 1, sizeof (double)); sen = malloc (nr + 1); memset (sen, '?', nr);
		dbl_QSget_rhs (q, rhs); dbl_QSget_senses (q, sen);
		ev_key ("rhs"); fputc ('[', EV); for (i = 0; i < nr; i++) { if (i) fputc (',', EV); put_d (rhs[i]); } fputc (']', EV);
		ev_chars ("senses", sen, nr);
		{
			/* range values: through ranged rows */
			int *c2 = 0, *b2 = 0, *i2 = 0; double *v2 = 0, *r2 = 0, *g2 = 0; char *s2 = 0; char **n2 = 0;
			rc = dbl_QSget_ranged_rows (q, &c2, &b2, &i2, &v2, &r2, &s2, &g2, &n2);
			if (!rc && nr) { ev_key ("range"); fputc ('[', EV); for (i = 0; i < nr; i++) { if (i) fputc (',', EV); put_d (g2[i]); } fputc (']', EV); ev_sarr ("rownames", n2, nr); }
			free (c2); free (b2); free (i2); dbl_EGlpNumFreeArray (v2); dbl_EGlpNumFreeArray (r2); dbl_EGlpNumFreeArray (g2); free (s2); free_names (n2, nr);
		}
		{
			static const int ids[] = { QS_PARAM_PRIMAL_PRICING, QS_PARAM_DUAL_PRICING, QS_PARAM_SIMPLEX_DISPLAY, QS_PARAM_SIMPLEX_MAX_ITERATIONS, QS_PARAM_SIMPLEX_SCALING };
			ev_key ("params"); fputc ('[', EV);
			for (i = 0; i < 5; i++) { int v = -777; rc = dbl_QSget_param (q, ids[i], &v); fprintf (EV, "%s[%d,%d,%d]", i ? "," : "", ids[i], rc, v); }
			fputc (']', EV);
		}
		free (rhs); free (sen);
		dbl_QSfree_prob (q);
	}
	END ();
}
static void put_f (mpf_t f)
{
	mpq_t q;
	if (mpf_cmp (f, mpf_ILL_MAXDOUBLE) == 0) { fputs ("\"inf\"", EV); return; }
	if (mpf_cmp (f, mpf_ILL_MINDOUBLE) == 0) { fputs ("\"-inf\"", EV); return; }
	mpq_init (q); mpq_set_f (q, f); fputc ('"', EV); mpq_out_str (EV, 10, q); fputc ('"', EV); mpq_clear (q);
}
static void c_copy_mpf (void)
{
	int k = nslot ('p'), prec = ni (), j, i, nc, nr; mpf_QSdata *q;
	BEGIN ("copy_mpf");
	if (!P[k]) { ev_int ("rc", 99); ev_int ("null", 1); END (); return; }
	QSexact_set_precision (prec);
	q = QScopy_prob_mpq_mpf (P[k], "mpfcopy");
	ev_int ("rc", q ? 0 : 1); ev_int ("prec", prec);
	if (q)
	{
		int *cnt = 0, *beg = 0, *ind = 0; mpf_t *val = 0, *o = 0, *l = 0, *u = 0; char **names = 0; int rc, nz = 0, s = 0;
		nc = mpf_QSget_colcount (q); nr = mpf_QSget_rowcount (q);
		ev_int ("ncols", nc); ev_int ("nrows", nr); ev_int ("nz", mpf_QSget_nzcount (q));
		mpf_QSget_objsense (q, &s); ev_int ("objsense", s);
		rc = mpf_QSget_columns (q, &cnt, &beg, &ind, &val, &o, &l, &u, &names);
		ev_int ("cols_rc", rc);
		if (!rc && nc)
		{
			for (j = 0; j < nc; j++) nz += cnt[j];
			ev_iarr ("cnt", cnt, nc); ev_iarr ("beg", beg, nc); ev_iarr ("ind", ind, nz);
			ev_key ("val"); fputc ('[', EV); for (i = 0; i < nz; i++) { if (i) fputc (',', EV); put_f (val[i]); } fputc (']', EV);
			ev_key ("obj"); fputc ('[', EV); for (i = 0; i < nc; i++) { if (i) fputc (',', EV); put_f (o[i]); } fputc (']', EV);
			ev_key ("lower"); fputc ('[', EV); for (i = 0; i < nc; i++) { if (i) fputc (',', EV); put_f (l[i]); } fputc (']', EV);
			ev_key ("upper"); fputc ('[', EV); for (i = 0; i < nc; i++) { if (i) fputc (',', EV); put_f (u[i]); } fputc (']', EV);
			ev_sarr ("names", names, nc);
		}
		free (cnt); free (beg); free (ind); mpf_EGlpNumFreeArray (val); mpf_EGlpNumFreeArray (o); mpf_EGlpNumFreeArray (l); mpf_EGlpNumFreeArray (u);
		free_names (names, nc);
		{
			int *c2 = 0, *b2 = 0, *i2 = 0; mpf_t *v2 = 0, *r2 = 0, *g2 = 0; char *s2 = 0; char **n2 = 0;
			rc = mpf_QSget_ranged_rows (q, &c2, &b2, &i2, &v2, &r2, &s2, &g2, &n2);
			if (!rc && nr)
			{
				ev_key ("rhs"); fputc ('[', EV); for (i = 0; i < nr; i++) { if (i) fputc (',', EV); put_f (r2[i]); } fputc (']', EV);
				ev_key ("range"); fputc ('[', EV); for (i = 0; i < nr; i++) { if (i) fputc (',', EV); put_f (g2[i]); } fputc (']', EV);
				ev_chars ("senses", s2, nr); ev_sarr ("rownames", n2, nr);
			}
			free (c2); free (b2); free (i2); mpf_EGlpNumFreeArray (v2); mpf_EGlpNumFreeArray (r2); mpf_EGlpNumFreeArray (g2); free (s2); free_names (n2, nr);
		}
		{
			static const int ids[] = { QS_PARAM_PRIMAL_PRICING, QS_PARAM_DUAL_PRICING, QS_PARAM_SIMPLEX_DISPLAY, QS_PARAM_SIMPLEX_MAX_ITERATIONS, QS_PARAM_SIMPLEX_SCALING };
			ev_key ("params"); fputc ('[', EV);
			for (i = 0; i < 5; i++) { int v = -777; rc = mpf_QSget_param (q, ids[i], &v); fprintf (EV, "%s[%d,%d,%d]", i ? "," : "", ids[i], rc, v); }
			fputc (']', EV);
		}
		mpf_QSfree_prob (q);
	}
	END ();
}
static void c_free (void) { int k = nslot ('p'); BEGIN ("free"); free_slot_p (k); ev_int ("rc", 0); END (); }

/* ---------------------------------------------------------------- internal store walker (no source change; installed headers) */
static void c_storecheck (void)
{
	int k = nslot ('p'); mpq_ILLlpdata *lp; const char *why = 0; int j, i, ncols, nrows, nstruct; long tot = 0;
	BEGIN ("storecheck");
	if (!P[k]) { ev_int ("rc", 99); ev_int ("null", 1); END (); return; }
	lp = P[k]->qslp; ncols = lp->ncols; nrows = lp->nrows; nstruct = lp->nstruct;
	if (ncols != nstruct + nrows) why = "ncols != nstruct+nrows";
	if (!why && lp->A.matcols != ncols) why = "A.matcols != ncols";
	if (!why && lp->A.matrows != nrows) why = "A.matrows != nrows";
	if (!why)
	{
		char *seen = calloc (ncols + 1, 1);
		for (j = 0; j < nstruct && !why; j++) { int c = lp->structmap[j]; if (c < 0 || c >= ncols) why = "structmap out of range"; else if (seen[c]++) why = "structmap/rowmap not injective"; }
		for (i = 0; i < nrows && !why; i++) { int c = lp->rowmap[i]; if (c < 0 || c >= ncols) why = "rowmap out of range"; else if (seen[c]++) why = "structmap/rowmap not injective"; }
		free (seen);
	}
	if (!why)
	{
		/* live column ranges inside matsize, pairwise disjoint; row indices in range */
		int *lo = malloc ((ncols + 1) * sizeof (int)), *ord = malloc ((ncols + 1) * sizeof (int));
		for (j = 0; j < ncols && !why; j++)
		{
			int b = lp->A.matbeg[j], c = lp->A.matcnt[j], t;
			if (c < 0 || b < 0 || (c > 0 && (long) b + c > lp->A.matsize)) { why = "column range outside matsize"; break; }
			tot += c;
			for (t = 0; t < c; t++) if (lp->A.matind[b + t] < 0 || lp->A.matind[b + t] >= nrows) { why = "row index out of range in column"; break; }
			lo[j] = b; ord[j] = j;
		}
		if (!why)
		{
			/* insertion sort by begin (ncols small enough), then check overlap among non-empty columns */
			int a, b2;
			for (a = 1; a < ncols; a++) { int v = ord[a]; b2 = a - 1; while (b2 >= 0 && lo[ord[b2]] > lo[v]) { ord[b2 + 1] = ord[b2]; b2--; } ord[b2 + 1] = v; }
			{
				long end = -1;
				for (a = 0; a < ncols; a++)
				{
					int c = ord[a];
					if (lp->A.matcnt[c] == 0) continue;
					if (lp->A.matbeg[c] < end) { why = "two live columns share storage"; break; }
					end = (long) lp->A.matbeg[c] + lp->A.matcnt[c];
				}
			}
		}
		free (lo); free (ord);
	}
	if (!why && tot != (long) lp->nzcount) why = "sum matcnt != nzcount";   /* internal nzcount includes the logicals */
	ev_int ("rc", 0); ev_int ("ok", why ? 0 : 1); if (why) ev_str ("why", why);
	ev_int ("matsize", lp->A.matsize); ev_int ("tot", tot);
	END ();
}

/* ---------------------------------------------------------------- misc */
extern size_t __sanitizer_get_current_allocated_bytes (void) __attribute__ ((weak));
static void c_cycle_mark (void)
{
	BEGIN ("cycle_mark");
	ev_int ("rc", 0);
	ev_int ("bytes", __sanitizer_get_current_allocated_bytes ? (long) __sanitizer_get_current_allocated_bytes () : -1);
	END ();
}
static void c_capture (void)
{
	char *f1 = nt (), *f2 = nt (); int a, b;
	fflush (NULL);
	a = open (f1, O_WRONLY | O_CREAT | O_APPEND, 0644); b = open (f2, O_WRONLY | O_CREAT | O_APPEND, 0644);
	if (a < 0 || b < 0) die ("capture: cannot open");
	dup2 (a, 1); dup2 (b, 2); close (a); close (b);
	capturing = 1;
}
static void c_loghandler (void)
{
	char *t = nt ();
	handler_on = !strcmp (t, "on");
	QSlog_set_handler (handler_on ? log_handler : 0, 0);
}
static void c_set_precision (void) { int prec = ni (); BEGIN ("set_precision"); QSexact_set_precision (prec); ev_int ("rc", 0); END (); }
static void free_all (void) { int i; for (i = 0; i < NSLOT; i++) { free_slot_p (i); free_slot_b (i); } }
static void c_case (void)
{
	char *id = nt ();
	BEGIN ("case"); free_all (); ev_str ("id", id); ev_int ("rc", 0); END ();
}
static void c_version (void) { char *v; BEGIN ("version"); v = mpq_QSversion (); ev_int ("rc", v ? 0 : 1); mpq_QSfree (v); END (); }

typedef struct { const char *name; void (*fn) (void); } cmd_t;
#define C(n) { #n, c_##n }
static cmd_t cmds[] = {
	C (create), C (load), C (new_col), C (add_col), C (add_cols), C (new_row), C (add_row), C (add_ranged_row), C (add_rows), C (add_ranged_rows),
	C (delete_rows), C (delete_cols), C (delete_row), C (delete_col), C (delete_named_row), C (delete_named_column),
	C (delete_named_rows_list), C (delete_named_columns_list), C (delete_setrows), C (delete_setcols),
	C (change_sense), C (change_senses), C (change_coef), C (change_objcoef), C (change_rhscoef), C (change_range), C (change_bound),
	C (change_bounds), C (change_objsense), C (set_param), C (set_reporter), C (set_param_num), C (get_param), C (get_param_num),
	C (dump), C (dumpx), C (dumpsol), C (writehash), C (get_coef), C (get_bound), C (get_bounds_list), C (get_obj_list), C (get_rows_list),
	C (get_ranged_rows_list), C (get_columns_list), C (get_column_index), C (get_row_index), C (get_named_x), C (get_named_rc),
	C (get_named_pi), C (get_named_slack),
	C (solve_exact), C (opt_primal), C (opt_dual), C (pivotin_row), C (pivotin_col), C (strongbranch), C (get_infeas),
	C (get_basis), C (make_basis), C (dump_basis), C (free_basis), C (load_basis), C (load_basis_array), C (get_basis_array),
	C (get_basis_norms), C (roundtrip_basis_norms), C (load_basis_norms), C (compute_row_norms), C (test_row_norms), C (write_basis), C (read_basis),
	C (read_and_load_basis), C (basis_optimalstatus), C (basis_dualstatus), C (verify),
	C (tableau), C (tableau_direct), C (get_binv_row), C (get_tableau_row),
	C (write_prob), C (write_prob_file), C (read_prob), C (get_prob), C (copy), C (copy_dbl), C (copy_mpf), C (free),
	C (storecheck), C (cycle_mark), C (capture), C (loghandler), C (case), C (version), C (set_precision),
	{ 0, 0 }
};

int main (int argc, char **argv)
{
	FILE *sc;
	ssize_t n;
	if (argc < 3) { fprintf (stderr, "usage: qsdrive script eventlog\n"); return 3; }
	sc = fopen (argv[1], "r");
	EV = fopen (argv[2], "w");
	if (!sc || !EV) { fprintf (stderr, "qsdrive: cannot open files\n"); return 3; }
	QSlog_set_handler (log_handler, 0);
#ifdef QSOPT_EX_VERIF
	QSverif_hook = hook_fn;
#endif
	QSexactStart ();
	QSexact_set_precision (128);
	while ((n = getline (&linebuf, &linecap, sc)) >= 0)
	{
		cmd_t *c;
		lineno++;
		split_line (linebuf);
		if (!ntok || tok[0][0] == '#') continue;
		tp = 1;
		for (c = cmds; c->name; c++) if (!strcmp (c->name, tok[0])) break;
		if (!c->name) die ("unknown command");
		/* a command on a problem slot that is empty (an earlier read/create failed) is the script's affair, not a
		 * library call: record it and go on (NULL problem pointers are outside every property's domain) */
		if (ntok > 1 && tok[1][0] == 'p' && tok[1][1] >= '0' && tok[1][1] <= '9' && atoi (tok[1] + 1) < NSLOT && !P[atoi (tok[1] + 1)]
				&& strcmp (tok[0], "create") && strcmp (tok[0], "load") && strcmp (tok[0], "read_prob") && strcmp (tok[0], "get_prob")
				&& strcmp (tok[0], "free") && strcmp (tok[0], "dump") && strcmp (tok[0], "dumpx") && strcmp (tok[0], "dumpsol") && strcmp (tok[0], "copy"))
		{
			BEGIN (tok[0]); ev_int ("rc", 99); ev_int ("null", 1); END ();
			continue;
		}
		c->fn ();
	}
	SEQ++;
	fprintf (EV, "{\"seq\":%ld,\"begin\":\"teardown\",\"line\":%ld}\n", SEQ, lineno); fflush (EV);
	free_all ();
	QSexactClear ();
	{ int i; for (i = 0; i < log_nkeep; i++) free (log_keep[i]); log_nkeep = 0; }
	free (linebuf); free (tok);
	fprintf (EV, "{\"seq\":%ld,\"op\":\"teardown\",\"rc\":0,\"done\":1}\n", SEQ); fflush (EV);
	fclose (EV); fclose (sc);
	return 0;
}
