"""Execution framework: chunks of generated cases -> qsdrive processes (sanitized build) -> offline judges.
Handles batching, crash attribution, watchdogs, sanitizer report triage, known findings, evidence, replay files."""
import base64, collections, hashlib, json, multiprocessing, os, random, re, shutil, signal, subprocess, sys, time, traceback

VERIF = os.path.dirname(os.path.dirname(os.path.abspath(__file__)))
sys.path.insert(0, os.path.join(VERIF, "build"))
import mkbuild  # noqa

WORKROOT = os.path.join(VERIF, "evidence", "work")
REPLAYDIR = os.path.join(VERIF, "evidence", "replay")
NPROC = int(os.environ.get("VERIF_NPROC", "16"))


class Case:
    """one independent execution: script lines (with @W@ = work dir), input files, free-form meta for the judge"""

    def __init__(self, cid, script, meta=None, files=None, tags=None):
        self.id = cid
        self.script = script
        self.meta = meta or {}
        self.files = files or {}   # name -> bytes, written into the work dir before the run
        self.tags = tags or []

    def to_json(self):
        return dict(id=self.id, script=self.script, tags=self.tags,
                    files={k: base64.b64encode(v).decode() for k, v in self.files.items()})


class Result:
    def __init__(self):
        self.events = []      # after-records of this case, in order
        self.begun = None     # op that was executing when the process died (or None)
        self.crash = None     # dict(kind, frames, text) if the process died / sanitizer fired in this case
        self.timeout = False
        self.leaks = None     # LSan report text of the process (only when leak detection on and batch == 1)
        self.outfiles = {}    # name -> bytes for files the judge asked for
        self.wd = None

    def ev(self, op, nth=0):
        k = 0
        for e in self.events:
            if e.get("op") == op:
                if k == nth:
                    return e
                k += 1
        return None

    def evs(self, op):
        return [e for e in self.events if e.get("op") == op]


# ---------------------------------------------------------------- sanitizer report triage
_FRAME = re.compile(r"#\d+ 0x[0-9a-f]+ in (\S+) (\S+)")


def triage(text, exitcode):
    """-> dict(kind, frames[list of in-library function names], text)"""
    kind = None
    m = re.search(r"ERROR: AddressSanitizer: (\S+)", text)
    if m:
        kind = "asan:" + m.group(1)
    if not kind:
        m = re.search(r"runtime error: ([^\n]*)", text)
        if m:
            msg = re.sub(r"0x[0-9a-f]+|\d+", "N", m.group(1))
            kind = "ubsan:" + msg[:80]
    if not kind:
        m = re.search(r"ERROR: LeakSanitizer", text)
        if m:
            kind = "lsan:leak"
    if not kind:
        if exitcode is not None and exitcode < 0:
            kind = "signal:%s" % signal.Signals(-exitcode).name
        else:
            kind = "exit:%s" % exitcode
    frames = []
    for fn, path in _FRAME.findall(text):
        if "/qsopt_ex/" in path or "/esolver/" in path:
            fn = re.sub(r"\.(part|constprop|isra|cold)\.\d+", "", fn)
            if not frames or frames[-1] != fn:
                frames.append(fn)
        if len(frames) >= 3 and "harness" in path:
            break
    return dict(kind=kind, frames=frames[:3], text=text[:6000])


def crash_key(prop, cr):
    return "%s|%s|%s" % (prop, cr["kind"], ">".join(cr["frames"]))


# ---------------------------------------------------------------- running batches
def san_env(wd, leaks=False, extra=None):
    env = dict(os.environ)
    lp = os.path.join(wd, "san")
    env["ASAN_OPTIONS"] = "abort_on_error=0:halt_on_error=1:detect_leaks=%d:log_path=%s:exitcode=86:allocator_may_return_null=1:detect_stack_use_after_return=0:quarantine_size_mb=8:malloc_context_size=8" % (1 if leaks else 0, lp)
    env["UBSAN_OPTIONS"] = "print_stacktrace=1:halt_on_error=1:log_path=%s" % lp
    env["LSAN_OPTIONS"] = "exitcode=23:log_path=%s" % lp
    if extra:
        extra = dict(extra)
        more = extra.pop("ASAN_EXTRA", None)     # appended to (not replacing) the ASan options above
        env.update(extra)
        if more and "ASAN_OPTIONS" not in extra:
            env["ASAN_OPTIONS"] += ":" + more
    return env


def _read_san(wd):
    txt = ""
    for n in sorted(os.listdir(wd)):
        if n.startswith("san."):
            try:
                txt += open(os.path.join(wd, n), errors="replace").read()
            except OSError:
                pass
            os.unlink(os.path.join(wd, n))
    return txt


def run_driver(binary, cases, wd, timeout, leaks=False, env_extra=None, want_files=(), wrapper=None):
    """run cases in one process; returns {case.id: Result}.  Cases after a crash are returned with Result=None."""
    os.makedirs(wd, exist_ok=True)
    for c in cases:
        for name, data in c.files.items():
            p = os.path.join(wd, name)
            with open(p, "wb") as fh:
                fh.write(data)
    sp = os.path.join(wd, "script.txt")
    with open(sp, "w") as fh:
        for c in cases:
            fh.write("case %s\n" % c.id)
            for ln in c.script:
                fh.write(ln.replace("@W@", wd) + "\n")
    evp = os.path.join(wd, "ev.jsonl")
    if os.path.exists(evp):
        os.unlink(evp)
    cmd = [binary, sp, evp]
    if wrapper:
        cmd = list(wrapper) + cmd
    t0 = time.time()
    to = False
    try:
        p = subprocess.run(cmd, cwd=wd, env=san_env(wd, leaks, env_extra), stdout=subprocess.PIPE, stderr=subprocess.PIPE,
                           timeout=timeout)
        rc, out, err = p.returncode, p.stdout, p.stderr
    except subprocess.TimeoutExpired as e:
        rc, out, err, to = None, e.stdout or b"", e.stderr or b"", True
    san = _read_san(wd)
    res = {c.id: None for c in cases}
    cur = None
    done = False
    begun = None
    driver_error = None
    try:
        with open(evp, errors="replace") as fh:
            for ln in fh:
                try:
                    d = json.loads(ln)
                except ValueError:
                    continue
                if "driver_error" in d:
                    driver_error = d["driver_error"]
                    continue
                if "begin" in d:
                    begun = d["begin"]
                    continue
                begun = None
                if d.get("op") == "case":
                    cur = Result()
                    cur.wd = wd
                    res[d["id"]] = cur
                    continue
                if d.get("op") == "teardown":
                    done = True
                    continue
                if cur is not None:
                    cur.events.append(d)
    except OSError:
        pass
    if driver_error:
        raise HarnessError("driver rejected script: %s (%s)" % (driver_error, sp))
    ok = done and rc == 0
    if not ok:
        # attribute to the case that was running
        last = None
        for c in cases:
            if res[c.id] is not None:
                last = c
        if last is None:
            if to:
                last = cases[0]
                res[last.id] = Result()
            else:
                raise HarnessError("driver died before first case rc=%r stderr=%s san=%s" % (rc, err[-2000:], san[-2000:]))
        r = res[last.id]
        r.begun = begun
        if to:
            r.timeout = True
        else:
            text = san or err.decode(errors="replace")[-4000:]
            if done and rc == 23:
                r.leaks = text
                r.crash = None
                # leak report at exit: process-level, attributed by caller
                for c in cases:
                    if res[c.id] is not None:
                        res[c.id].leaks = text
            else:
                r.crash = triage(text, rc)
                r.crash["op"] = begun
    for c in cases:
        r = res[c.id]
        if r is not None:
            for name in want_files:
                p = os.path.join(wd, name)
                if os.path.exists(p):
                    r.outfiles[name] = open(p, "rb").read()
    res["__stderr__"] = err
    res["__stdout__"] = out
    res["__wall__"] = time.time() - t0
    return res


class HarnessError(Exception):
    pass


def run_cases(binary, cases, wd, batch=25, timeout=120, leaks=False, env_extra=None, wrapper=None):
    """run all cases with crash isolation: a crashed/timeouted case is re-run alone for a clean witness,
    the cases after it are re-run.  returns {id: Result}"""
    out = {}
    queue = list(cases)
    n = 0
    while queue:
        chunk, queue = queue[:batch], queue[batch:]
        n += 1
        sub = os.path.join(wd, "b%d" % n)
        r = run_driver(binary, chunk, sub, timeout * (1 + len(chunk) // 4), leaks, env_extra, wrapper=wrapper)
        rerun = []
        failed = None
        for c in chunk:
            rr = r[c.id]
            if rr is None:
                rerun.append(c)
            elif rr.crash or rr.timeout:
                failed = c
                out[c.id] = rr
            else:
                out[c.id] = rr
        if failed is not None and len(chunk) > 1:
            n += 1
            sub2 = os.path.join(wd, "b%d" % n)
            r2 = run_driver(binary, [failed], sub2, timeout, leaks, env_extra, wrapper=wrapper)
            alone = r2[failed.id]
            if alone is not None:
                first = out[failed.id]
                if alone.crash or alone.timeout:
                    out[failed.id] = alone
                    alone.meta_inbatch = True
                else:
                    # did not reproduce alone: keep the in-batch observation, flag it
                    if first.timeout:
                        # watchdog on a loaded machine: not reproduced -> accept the clean re-run
                        out[failed.id] = alone
                    else:
                        first.crash["only_in_batch"] = [c.id for c in chunk]
        queue = rerun + queue
    return out


# ---------------------------------------------------------------- chunks in a process pool
def _worker(args):
    modname, fn, payload = args
    try:
        mod = sys.modules.get(modname) or __import__(modname, fromlist=["x"])
        return ("ok", getattr(mod, fn)(payload))
    except HarnessError as e:
        return ("harness", str(e))
    except Exception:
        return ("harness", traceback.format_exc())


def pool_map(modname, fn, payloads, nproc=None):
    """map top-level function modname.fn over payloads in worker processes; HarnessError -> raises here"""
    nproc = nproc or NPROC
    if len(payloads) == 0:
        return []
    if nproc == 1 or len(payloads) == 1:
        outs = [_worker((modname, fn, p)) for p in payloads]
    else:
        ctx = multiprocessing.get_context("fork")
        with ctx.Pool(min(nproc, len(payloads))) as pool:
            outs = pool.map(_worker, [(modname, fn, p) for p in payloads], chunksize=1)
    res = []
    for st, v in outs:
        if st != "ok":
            raise HarnessError(v)
        res.append(v)
    return res


def builds(flavours):
    r = mkbuild.ensure(flavours)
    if r is None:
        raise HarnessError("build of /repo working tree failed")
    return r


def workdir(tag):
    d = os.path.join(WORKROOT, "%s-%d" % (tag, os.getpid()))
    if os.path.exists(d):
        shutil.rmtree(d, ignore_errors=True)
    os.makedirs(d)
    return d


def cleanup(d):
    shutil.rmtree(d, ignore_errors=True)


def rng(prop, tier, seed, stream, k=0):
    return random.Random("%s:%s:%s:%s:%s" % (prop, tier, seed, stream, k))


# ---------------------------------------------------------------- known findings
def load_known():
    p = os.path.join(VERIF, "known_findings.json")
    try:
        return json.load(open(p))["findings"]
    except (OSError, ValueError, KeyError):
        return []


def match_known(prop, key, known, replay=None):
    """an open finding is identified by the violation key *and*, when it lists `inputs`, by the failing input itself (the hash in
    the replay file name = sha256(case id | script)): another input failing the same way is a new violation"""
    for k in known:
        if k.get("property") == prop and k.get("state") == "open":
            pat = k.get("key")
            if pat == key or (k.get("regex") and re.search(k["regex"], key)):
                if k.get("inputs"):
                    h = os.path.basename(replay or "").rsplit("-", 1)[-1].replace(".json", "")
                    if h not in k["inputs"]:
                        continue
                return k
    return None


# ---------------------------------------------------------------- check driver
class Report:
    """collects what a check observed; writes evidence; prints verdict lines; decides exit code"""

    def __init__(self, prop, tier, seed, rule, level="exploration"):
        self.prop, self.tier, self.seed, self.rule, self.level = prop, tier, seed, rule, level
        self.t0 = time.time()
        self.evaluations = 0
        self.distinct = set()
        self.samples = []
        self.counters = collections.Counter()
        self.violations = []     # dict(key, what, replay)
        self.inconclusive = []
        self.extra = {}
        self.assumptions = []
        self.known = load_known()
        self.known_hit = collections.OrderedDict()

    def merge(self, part):
        """part: dict from a worker chunk: evaluations, distinct(list of hashes), counters(dict), violations, inconclusive, samples"""
        self.evaluations += part.get("evaluations", 0)
        self.distinct.update(part.get("distinct", ()))
        self.counters.update(part.get("counters", {}))
        for v in part.get("violations", ()):
            self.add_violation(v)
        self.inconclusive += part.get("inconclusive", [])
        for s in part.get("samples", ()):
            if len(self.samples) < 3:
                self.samples.append(s)
        for k, v in part.get("max", {}).items():
            self.extra[k] = max(self.extra.get(k, v), v)

    def add_violation(self, v):
        k = match_known(self.prop, v["key"], self.known, v.get("replay"))
        if k is not None:
            ent = self.known_hit.setdefault(k["key"], dict(what=k.get("what", ""), n=0))
            ent["n"] += 1
            return
        self.violations.append(v)

    def finish(self, floor=1):
        # mutation runs (tools/mutest.py) redirect their evidence so that the committed files only ever describe /repo itself
        evdir = os.environ.get("VERIF_EVIDENCE_DIR") or os.path.join(VERIF, "evidence")
        os.makedirs(evdir, exist_ok=True)
        wall = time.time() - self.t0
        for key, ent in self.known_hit.items():
            print("KNOWN-FINDING: property=%s %s (%s; %d occurrences this run)" % (self.prop, key, ent["what"], ent["n"]))
        seen = set()
        nrep = 0
        for v in self.violations:
            if v["key"] in seen:
                continue
            seen.add(v["key"])
            nrep += 1
            if nrep <= 10:
                print("VIOLATION property=%s replay=%s" % (self.prop, v.get("replay", "-")))
                print("  key: %s" % v["key"])
                print("  what: %s" % str(v.get("what", ""))[:1500])
        if os.environ.get("VERIF_DUMP"):
            with open(os.environ["VERIF_DUMP"], "w") as fh:
                done = set()
                for v in self.violations:
                    if v["key"] not in done:
                        done.add(v["key"])
                        fh.write(json.dumps(dict(key=v["key"], what=str(v.get("what", ""))[:600], replay=v.get("replay"))) + "\n")
        status = 0
        if self.violations:
            status = 1
        elif self.inconclusive or self.evaluations < floor or len(self.distinct) < 2:
            status = 2
        cov = dict(evaluations=self.evaluations, distinct_nontrivial=len(self.distinct), rule=self.rule,
                   samples=self.samples[:3], counters=dict(sorted(self.counters.items())),
                   known_findings_hit={k: v["n"] for k, v in self.known_hit.items()},
                   inconclusive=len(self.inconclusive), inconclusive_examples=self.inconclusive[:5],
                   violation_keys=sorted(seen)[:20])
        cov.update(self.extra)
        ev = dict(property_id=self.prop, tier=self.tier, seed=int(self.seed), level=self.level, coverage=cov,
                  assumptions=self.assumptions, wall_s=round(wall, 2), violations=len(seen))
        with open(os.path.join(evdir, "%s.json" % self.prop), "w") as fh:
            json.dump(ev, fh, indent=1, default=str)
        print("%s %s seed=%s: evaluations=%d distinct_nontrivial=%d violations=%d known=%d inconclusive=%d wall=%.1fs" % (
            self.prop, self.tier, self.seed, self.evaluations, len(self.distinct), len(seen), len(self.known_hit),
            len(self.inconclusive), wall))
        for k, v in sorted(self.counters.items()):
            print("   %-40s %d" % (k, v))
        if status == 2:
            print("INCONCLUSIVE: %s" % (self.inconclusive[:3] or "too few events observed (floor %d)" % floor))
        return status


def save_replay(prop, case, why):
    os.makedirs(REPLAYDIR, exist_ok=True)
    h = hashlib.sha256(("%s|%s" % (case.id, "\n".join(case.script))).encode()).hexdigest()[:12]
    p = os.path.join(REPLAYDIR, "%s-%s.json" % (prop, h))
    d = case.to_json()
    d["property"] = prop
    d["why"] = why
    try:
        d["meta"] = json.loads(json.dumps(case.meta, default=str))
    except Exception:
        d["meta"] = {}
    with open(p, "w") as fh:
        json.dump(d, fh, indent=1)
    return p


def load_replay(path):
    d = json.load(open(path))
    c = Case(d["id"], d["script"], d.get("meta"), {k: base64.b64decode(v) for k, v in d.get("files", {}).items()}, d.get("tags"))
    return c, d


def h(*parts):
    return hashlib.sha256(repr(parts).encode()).hexdigest()[:16]
