"""Seeded generators of edit histories (op tuples of model.LP.apply), always valid w.r.t. the current model."""
from fractions import Fraction
from .model import LP, Col, Row, MIN, MAX
from .rat import INF, NINF
from . import gen_lp

F = Fraction


class Namer:
    def __init__(self):
        self.r = 0
        self.c = 0
        self.maxn = 6
        self.deflook = False    # explicit names that look like library defaults: only for histories that are never rebuilt call by call

    # names that look like the library's defaults (c<k>, x<k>) for items still to come: a later NULL-named item must then be given
    # another name.  Only while no default-named item exists in that table (otherwise the name might be taken without the
    # model knowing), and only in histories that are never rebuilt call by call.
    none_r = False
    none_c = False
    cnt_r = 0
    cnt_c = 0
    taken = ()

    def row(self, rnd, p_none=0.15):
        if rnd.random() < p_none:
            self.none_r = True
            return None
        if self.deflook and not self.none_r and rnd.random() < 0.1:
            cand = "c%d" % (self.cnt_r + rnd.randint(1, 4))
            if cand not in self.taken:
                self.taken.add(cand)
                return cand
        self.r += 1
        return "RW%d" % self.r

    def col(self, rnd, p_none=0.15):
        if rnd.random() < p_none:
            self.none_c = True
            return None
        if self.deflook and not self.none_c and rnd.random() < 0.1:
            cand = "x%d" % (self.cnt_c + rnd.randint(1, 4))
            if cand not in self.taken:
                self.taken.add(cand)
                return cand
        self.c += 1
        return "CL%d" % self.c


def val(rnd, nz=False):
    while True:
        t = rnd.random()
        if t < 0.7:
            v = F(rnd.randint(-6, 6))
        elif t < 0.95:
            v = F(rnd.randint(-12, 12), rnd.choice([2, 3, 5, 7]))
        else:
            v = F(rnd.randint(-10 ** 12, 10 ** 12), rnd.randint(1, 10 ** 9))
        if not nz or v != 0:
            return v


def bounds(rnd):
    return gen_lp.rnd_bounds(rnd, "small")


def ents(rnd, n, dens=None, maxn=None):
    """sparse vector over range(n) without repeated indices, non-zero values"""
    if n == 0:
        return []
    k = rnd.randint(0, min(n, maxn or 6))
    idx = sorted(rnd.sample(range(n), k))
    return [(i, val(rnd, nz=True)) for i in idx]


def named(objs):
    return [o.name for o in objs if o.name is not None]


EDIT_KINDS = [
    ("new_col", 4), ("add_col", 6), ("add_cols", 3), ("new_row", 3), ("add_row", 7), ("add_rows", 3), ("add_ranged_row", 3),
    ("add_ranged_rows", 2), ("delete_row", 3), ("delete_rows", 2), ("delete_setrows", 1), ("delete_named_row", 2),
    ("delete_named_rows_list", 1), ("delete_col", 3), ("delete_cols", 2), ("delete_setcols", 1), ("delete_named_column", 2),
    ("delete_named_columns_list", 1), ("change_sense", 4), ("change_senses", 1), ("change_coef", 8), ("change_objcoef", 5),
    ("change_rhscoef", 5), ("change_range", 3), ("change_bound", 6), ("change_bounds", 2), ("change_objsense", 1),
]


def default_looking(rnd, m, L, pos, prefix, count, existing, enabled=False):
    """in a list add with a NULL (default-named) entry followed by an explicit one, sometimes give the explicit entry exactly the
    name the library would generate for the NULL entry (prefix + index+1): the call is valid and the explicit name has to be kept.
    Only when every existing name is known to the model (no earlier default names) and the name is unused."""
    if not enabled or rnd.random() > 0.3 or any(n is None for n in existing):
        return L
    for t in range(1, len(L)):
        if L[t - 1][pos] is None and L[t][pos] is not None:
            cand = "%s%d" % (prefix, count + t)       # default name of entry t-1
            if cand not in existing and all(e[pos] != cand for e in L):
                e = list(L[t])
                e[pos] = cand
                L[t] = tuple(e)
                break
    return L


def rnd_edit(rnd, m, nm, grow=0.5, kinds=None):
    """one valid edit for model m, or None if the drawn kind is impossible now.  grow in [0,1] biases add vs delete."""
    kinds = kinds or EDIT_KINDS
    tot = 0
    W = []
    for k, w in kinds:
        if k.startswith(("new_", "add_")):
            w = w * (0.3 + 1.4 * grow)
        elif k.startswith("delete_"):
            w = w * (0.3 + 1.4 * (1 - grow))
        W.append(w)
        tot += w
    t = rnd.random() * tot
    for (k, _), w in zip(kinds, W):
        t -= w
        if t <= 0:
            break
    nr, nc = m.nrows, m.ncols
    nm.cnt_r, nm.cnt_c = nr, nc
    if nm.deflook:
        nm.taken = set(x.name for x in m.cols) | set(x.name for x in m.rows)
        nm.none_r = nm.none_r or any(x.name is None for x in m.rows)
        nm.none_c = nm.none_c or any(x.name is None for x in m.cols)
    if k == "new_col":
        lo, up = bounds(rnd)
        return ("new_col", val(rnd), lo, up, nm.col(rnd))
    if k == "add_col":
        lo, up = bounds(rnd)
        return ("add_col", val(rnd), lo, up, nm.col(rnd), ents(rnd, nr, maxn=nm.maxn))
    if k == "add_cols":
        L = []
        anynone = rnd.random() < 0.2
        for _ in range(rnd.randint(1, 3)):
            lo, up = bounds(rnd)
            L.append((val(rnd), lo, up, None if (anynone or rnd.random() < 0.2) else nm.col(rnd, 0), ents(rnd, nr, maxn=nm.maxn)))
        return ("add_cols", default_looking(rnd, m, L, 3, "x", m.ncols, [c.name for c in m.cols], nm.deflook))
    if k == "new_row":
        return ("new_row", val(rnd), rnd.choice("LGE"), nm.row(rnd))
    if k == "add_row":
        return ("add_row", val(rnd), rnd.choice("LGE"), nm.row(rnd), ents(rnd, nc, maxn=nm.maxn))
    if k == "add_rows":
        anynone = rnd.random() < 0.15
        L = [(val(rnd), rnd.choice("LGE"), None if (anynone or rnd.random() < 0.2) else nm.row(rnd, 0), ents(rnd, nc, maxn=nm.maxn)) for _ in range(rnd.randint(1, 3))]
        return ("add_rows", default_looking(rnd, m, L, 2, "c", m.nrows, [r.name for r in m.rows], nm.deflook))
    if k == "add_ranged_row":
        return ("add_ranged_row", val(rnd), "R", abs(val(rnd)), nm.row(rnd), ents(rnd, nc, maxn=nm.maxn))
    if k == "add_ranged_rows":
        anynone = rnd.random() < 0.2
        L = []
        for _ in range(rnd.randint(1, 3)):
            s = rnd.choice("LGER R")
            s = "R" if s == " " else s
            L.append((val(rnd), s, abs(val(rnd)) if s == "R" else F(0), None if (anynone or rnd.random() < 0.2) else nm.row(rnd, 0), ents(rnd, nc, maxn=nm.maxn)))
        return ("add_ranged_rows", default_looking(rnd, m, L, 3, "c", m.nrows, [r.name for r in m.rows], nm.deflook))
    if k == "delete_row":
        return ("delete_row", rnd.randrange(nr)) if nr else None
    if k == "delete_rows":
        return ("delete_rows", rnd.sample(range(nr), rnd.randint(1, min(nr, 4)))) if nr else None
    if k == "delete_setrows":
        return ("delete_setrows", [1 if rnd.random() < 0.3 else 0 for _ in range(nr)]) if nr else None
    if k == "delete_named_row":
        N = named(m.rows)
        return ("delete_named_row", rnd.choice(N)) if N else None
    if k == "delete_named_rows_list":
        N = named(m.rows)
        return ("delete_named_rows_list", rnd.sample(N, rnd.randint(1, min(len(N), 3)))) if N else None
    if k == "delete_col":
        return ("delete_col", rnd.randrange(nc)) if nc else None
    if k == "delete_cols":
        return ("delete_cols", rnd.sample(range(nc), rnd.randint(1, min(nc, 4)))) if nc else None
    if k == "delete_setcols":
        return ("delete_setcols", [1 if rnd.random() < 0.3 else 0 for _ in range(nc)]) if nc else None
    if k == "delete_named_column":
        N = named(m.cols)
        return ("delete_named_column", rnd.choice(N)) if N else None
    if k == "delete_named_columns_list":
        N = named(m.cols)
        return ("delete_named_columns_list", rnd.sample(N, rnd.randint(1, min(len(N), 3)))) if N else None
    if k == "change_sense":
        return ("change_sense", rnd.randrange(nr), rnd.choice("LGER")) if nr else None
    if k == "change_senses":
        if not nr:
            return None
        idx = rnd.sample(range(nr), rnd.randint(1, min(nr, 3)))
        return ("change_senses", [(i, rnd.choice("LGER")) for i in idx])
    if k == "change_coef":
        if not nr or not nc:
            return None
        i, j = rnd.randrange(nr), rnd.randrange(nc)
        r = m.rows[i]
        if r.coef and rnd.random() < 0.5:
            ci = m.colindex()
            j = ci[rnd.choice(list(r.coef))]
        v = F(0) if rnd.random() < 0.2 else val(rnd)
        return ("change_coef", i, j, v)
    if k == "change_objcoef":
        return ("change_objcoef", rnd.randrange(nc), val(rnd)) if nc else None
    if k == "change_rhscoef":
        return ("change_rhscoef", rnd.randrange(nr), val(rnd)) if nr else None
    if k == "change_range":
        R = [i for i, r in enumerate(m.rows) if r.sense == "R"]
        return ("change_range", rnd.choice(R), abs(val(rnd))) if R else None
    if k == "change_bound":
        if not nc:
            return None
        j = rnd.randrange(nc)
        c = m.cols[j]
        lu = rnd.choice("LUB")
        v = val(rnd)
        if lu == "L":
            if rnd.random() < 0.15:
                v = NINF
            elif c.up != INF and v > c.up:
                v = c.up - abs(v)
        elif lu == "U":
            if rnd.random() < 0.15:
                v = INF
            elif c.lo != NINF and v < c.lo:
                v = c.lo + abs(v)
        return ("change_bound", j, lu, v)
    if k == "change_bounds":
        if not nc:
            return None
        out = []
        for j in rnd.sample(range(nc), rnd.randint(1, min(nc, 3))):
            c = m.cols[j]
            v = val(rnd)
            out.append((j, "B", v))
        return ("change_bounds", out)
    if k == "change_objsense":
        return ("change_objsense", rnd.choice([MIN, MAX]))
    raise ValueError(k)


def history(rnd, m, nm, n, grow_fn=None, kinds=None):
    """yields (op) edits applied to m (m is mutated).  grow_fn(step) -> grow bias"""
    for s in range(n):
        g = grow_fn(s) if grow_fn else 0.5
        for _ in range(20):
            op = rnd_edit(rnd, m, nm, g, kinds)
            if op is not None:
                break
        else:
            continue
        m.apply(op)
        yield op


def base_lp(rnd, which=None):
    """small base problems for short histories"""
    which = which if which is not None else rnd.randrange(4)
    if which == 0:
        m = LP("base0", MAX)
        x, y, z = Col("x", 3, F(2), INF), Col("y", 2, NINF, INF), Col("z", 4, F(1), F(10))
        m.cols = [x, y, z]
        m.rows = [Row("c1", "L", 12, 0, {x: F(3), y: F(2), z: F(1)}), Row("c2", "E", 10, 0, {x: F(5), y: F(1)})]
        return m
    if which == 1:
        m = LP("base1", MIN)
        a, b = Col("a", 1, F(0), INF), Col("b", 2, F(0), F(4))
        m.cols = [a, b]
        m.rows = [Row("r1", "G", 2, 0, {a: F(1), b: F(1)}), Row("r2", "R", 1, 3, {a: F(1), b: F(-1)}), Row("r3", "L", 8, 0, {a: F(2), b: F(1)})]
        return m
    if which == 2:
        return LP("empty", rnd.choice([MIN, MAX]))
    m = gen_lp.planted_optimal(rnd, rnd.randint(2, 4), rnd.randint(2, 5), "small")
    for j, c in enumerate(m.cols):
        c.name = "CB%d" % j
    for i, r in enumerate(m.rows):
        r.name = "RB%d" % i
    return m
