"""O-ref: dense two-phase primal simplex on Fractions with Bland's rule.  Self-certifying: every answer comes
with a certificate that cert.py verifies; an answer whose certificate fails is reported as status 'UNCERTIFIED'."""
from fractions import Fraction
from .rat import INF, NINF, isinf
from . import cert

Z = Fraction(0)
ONE = Fraction(1)


class Std:
    """standard form  min cz  s.t. Mz = b, z>=0  with the maps back to the original LP"""
    pass


def to_std(m):
    s = Std()
    ci = m.colindex()
    # variable substitution: x_j = off_j + sum_k coef * z_k
    zc = []          # cost of z
    xmap = []        # per x_j: (offset, [(zindex, coef)])
    extra_rows = []  # bound rows: (dict zindex->coef, rhs)
    nz = 0
    sgn = Fraction(m.objsense)  # min: +1 ; max: minimise -c
    for c in m.cols:
        if not isinf(c.lo):
            xmap.append((Fraction(c.lo), [(nz, ONE)]))
            zc.append(sgn * c.obj)
            if not isinf(c.up):
                extra_rows.append(({nz: ONE}, Fraction(c.up) - Fraction(c.lo)))  # z + slack = u-l
            nz += 1
        elif not isinf(c.up):
            xmap.append((Fraction(c.up), [(nz, -ONE)]))
            zc.append(-sgn * c.obj)
            nz += 1
        else:
            xmap.append((Z, [(nz, ONE), (nz + 1, -ONE)]))
            zc.append(sgn * c.obj)
            zc.append(-sgn * c.obj)
            nz += 2
    s.nzx = nz
    rows = []  # (dict z->coef, rhs, kind) kind: ('orig', i) or ('bound', j) or ('range', i)
    slack_of = {}
    for i, r in enumerate(m.rows):
        d = {}
        rhs = r.rhs
        for c, v in r.coef.items():
            off, terms = xmap[ci[c]]
            rhs -= v * off
            for k, t in terms:
                d[k] = d.get(k, Z) + v * t
        if r.sense == "L":
            d[nz] = ONE
            zc.append(Z)
            nz += 1
        elif r.sense in ("G", "R"):
            d[nz] = -ONE
            zc.append(Z)
            if r.sense == "R":
                slack_of[i] = nz
            nz += 1
        rows.append((d, rhs, ("orig", i)))
    for i, k in slack_of.items():
        rows.append(({k: ONE, nz: ONE}, m.rows[i].range, ("range", i)))
        zc.append(Z)
        nz += 1
    for d, rhs in extra_rows:
        d = dict(d)
        d[nz] = ONE
        zc.append(Z)
        nz += 1
        rows.append((d, rhs, ("bound", None)))
    s.n = nz
    s.c = zc
    s.rows = rows
    s.xmap = xmap
    s.const = sum((sgn * c.obj * xmap[j][0] for j, c in enumerate(m.cols)), Z)
    return s


def _pivot(T, r, c):
    pr = T[r]
    pv = pr[c]
    if pv != 1:
        inv = 1 / pv
        T[r] = pr = [v * inv if v else v for v in pr]
    for i, row in enumerate(T):
        if i != r:
            f = row[c]
            if f:
                T[i] = [a - f * b if b else a for a, b in zip(row, pr)]


def solve_std(s, maxit=20000):
    """returns dict(status, z, y (duals of rows in original orientation), ray)"""
    mrows = len(s.rows)
    n = s.n
    ncol = n + mrows  # + artificials
    sign = []
    T = []
    for (d, rhs, kind) in s.rows:
        sg = -1 if rhs < 0 else 1
        sign.append(sg)
        row = [Z] * (ncol + 1)
        for k, v in d.items():
            row[k] = sg * v
        row[-1] = sg * rhs
        T.append(row)
    for i in range(mrows):
        T[i][n + i] = ONE
    basis = [n + i for i in range(mrows)]
    # phase I objective row: min sum of artificials -> reduced costs
    def objrow(cost):
        d = list(cost) + [Z]
        for i, bv in enumerate(basis):
            cb = cost[bv]
            if cb:
                d = [a - cb * b if b else a for a, b in zip(d, T[i])]
        return d

    def iterate(cost, allowed):
        d = objrow(cost)
        it = 0
        while True:
            it += 1
            if it > maxit:
                return "ITER", None, d
            e = -1
            for k in range(allowed):
                if d[k] < 0:
                    e = k
                    break
            if e < 0:
                return "OPT", None, d
            best = None
            lr = -1
            for i in range(mrows):
                a = T[i][e]
                if a > 0:
                    ratio = T[i][-1] / a
                    if best is None or ratio < best or (ratio == best and basis[i] < basis[lr]):
                        best, lr = ratio, i
            if lr < 0:
                return "UNB", e, d
            _pivot(T, lr, e)
            basis[lr] = e
            f = d[e]
            if f:
                d = [a - f * b if b else a for a, b in zip(d, T[lr])]

    cost1 = [Z] * n + [ONE] * mrows
    st, _, d = iterate(cost1, n)  # artificials never re-enter
    if st == "ITER":
        return dict(status="ITER")
    infeas = sum((T[i][-1] for i, bv in enumerate(basis) if bv >= n), Z)
    if infeas > 0:
        # phase I duals: y_i = cost_art - d_art = 1 - d[n+i] ... (art column is e_i in the sign-adjusted row)
        y = [sign[i] * (ONE - d[n + i]) for i in range(mrows)]
        return dict(status="INFEASIBLE", y=y)
    # drive zero-level artificials out where possible
    for i in range(mrows):
        if basis[i] >= n:
            for k in range(n):
                if T[i][k] != 0:
                    _pivot(T, i, k)
                    basis[i] = k
                    break
    cost2 = list(s.c) + [Z] * mrows
    st, e, d = iterate(cost2, n)
    if st == "ITER":
        return dict(status="ITER")
    z = [Z] * n
    for i, bv in enumerate(basis):
        if bv < n:
            z[bv] = T[i][-1]
    if st == "UNB":
        ray = [Z] * n
        ray[e] = ONE
        for i, bv in enumerate(basis):
            if bv < n:
                ray[bv] = -T[i][e]
        return dict(status="UNBOUNDED", z=z, ray=ray)
    y = [sign[i] * (Z - d[n + i]) for i in range(mrows)]
    return dict(status="OPTIMAL", z=z, y=y)


def _x_from_z(s, z, homogeneous=False):
    x = []
    for off, terms in s.xmap:
        v = Z if homogeneous else off
        for k, t in terms:
            v += t * z[k]
        x.append(v)
    return x


def solve(m, maxit=20000):
    """returns dict(status in OPTIMAL/INFEASIBLE/UNBOUNDED/UNCERTIFIED/ITER, value, x, pi, y, ray, why)"""
    if m.ncols == 0 and m.nrows == 0:
        return dict(status="OPTIMAL", value=Z, x=[], pi=[])
    s = to_std(m)
    r = solve_std(s, maxit)
    sgn = Fraction(m.objsense)
    if r["status"] == "ITER":
        return dict(status="ITER")
    if r["status"] == "OPTIMAL":
        x = _x_from_z(s, r["z"])
        pi = [Z] * m.nrows
        for k, (_, _, kind) in enumerate(s.rows):
            if kind[0] == "orig":
                pi[kind[1]] = sgn * r["y"][k]
        val = sum((c.obj * x[j] for j, c in enumerate(m.cols)), Z)
        bad = cert.check_optimal(m, val, x, pi)
        if bad:
            return dict(status="UNCERTIFIED", claimed="OPTIMAL", why=bad[:3], x=x, pi=pi)
        return dict(status="OPTIMAL", value=val, x=x, pi=pi)
    if r["status"] == "INFEASIBLE":
        y = [Z] * m.nrows
        for k, (_, _, kind) in enumerate(s.rows):
            if kind[0] == "orig":
                y[kind[1]] = r["y"][k]
        bad = cert.check_farkas(m, y)
        if bad:
            return dict(status="UNCERTIFIED", claimed="INFEASIBLE", why=bad[:3], y=y)
        return dict(status="INFEASIBLE", y=y)
    if r["status"] == "UNBOUNDED":
        x = _x_from_z(s, r["z"])
        d = _x_from_z(s, r["ray"], homogeneous=True)
        bad = cert.check_ray(m, x, d)
        if bad:
            return dict(status="UNCERTIFIED", claimed="UNBOUNDED", why=bad[:3], x=x, ray=d)
        return dict(status="UNBOUNDED", x=x, ray=d)
    return dict(status="UNCERTIFIED", why=["?"])
