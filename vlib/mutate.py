"""Token- and byte-level mutators for LP / MPS / basis texts (C11, C18, C20 workloads)."""
import re

KEYWORDS = ["Minimize", "MAX", "Subject To", "ST", "Bounds", "BOUND", "Integer", "End", "free", "inf", "-inf", "NAME", "ROWS", "COLUMNS", "RHS", "RANGES",
            "BOUNDS", "ENDATA", "OBJSENSE", "OBJNAME", "'MARKER'", "'INTORG'", "'INTEND'", "LO", "UP", "FX", "FR", "MI", "PL", "BV", "LI", "UI", "N", "L", "G",
            "E", "XU", "XL", "UL", "LL", "REFROW", "S1", "S2", "'SOSORG'", "'SOSEND'"]
NUMBERS = ["0", "1", "-1", "1/0", "0/0", "-3/0", "1e", "1e+", ".", "-", "+", "+-+-1", "1e4000", "1e-4000", "9" * 400, "1/" + "7" * 300, "0.000000000000000000001",
           "1.5/2.5", "--2", "1/2/3", "1e2e3", "0x10", "1,5", "١", "1e9999", "inf", "-infinity", "nan", "1d5",
           # a dot after the exponent digits: the exponent has three digits, what follows is not part of it
           "1e-02.5", "1e-020.00500", "110e-020.00500E+3", "3e2.5", "7e+1.25/2", "1/2e3.00044"]
GARBAGE = ["\x00", "\x01\x02", "\t\t", "\r", ":", "::", "<=", ">=", "=<>", "\\", "%s%n", "(", ")", "'", "\"", "x" * 300, "é", "\xff\xfe", "<", ">", "=", "*", "^", "[", "]"]


def tokens(text):
    return re.findall(r"\s+|\S+", text)


def mutate(text, rnd, nmut=None):
    """returns a mutated variant (str).  mixture of token-level edits, truncation, line-level edits and byte noise"""
    kind = rnd.random()
    if kind < 0.12:
        # truncation at a random token boundary / byte
        if rnd.random() < 0.5:
            return text[:rnd.randrange(len(text) + 1)]
        t = tokens(text)
        return "".join(t[:rnd.randrange(len(t) + 1)])
    if kind < 0.22:
        # line level: drop, duplicate, swap, join
        L = text.split("\n")
        if len(L) > 1:
            i = rnd.randrange(len(L))
            op = rnd.choice(["drop", "dup", "swap", "join", "indent", "unindent"])
            if op == "drop":
                del L[i]
            elif op == "dup":
                L.insert(i, L[i])
            elif op == "swap":
                j = rnd.randrange(len(L))
                L[i], L[j] = L[j], L[i]
            elif op == "join" and i + 1 < len(L):
                L[i] = L[i] + " " + L.pop(i + 1)
            elif op == "indent":
                L[i] = "   " + L[i]
            else:
                L[i] = L[i].lstrip()
        return "\n".join(L)
    if kind < 0.30:
        # newline conventions / missing final newline / very long line or name
        sub = rnd.choice(["crlf", "nonl", "longname", "longline", "nul", "blank"])
        if sub == "crlf":
            return text.replace("\n", "\r\n")
        if sub == "nonl":
            return text.rstrip("\n")
        if sub == "longname":
            t = tokens(text)
            idx = [i for i, x in enumerate(t) if re.match(r"[A-Za-z_]", x)]
            if idx:
                i = rnd.choice(idx)
                long = t[i] + "q" * rnd.choice([70, 300, 5000, 70000])
                nm = t[i]
                return "".join(long if x == nm else x for x in t)
            return text
        if sub == "longline":
            return text.replace("\n", " ", rnd.randint(1, 50))
        if sub == "nul":
            i = rnd.randrange(len(text) + 1)
            return text[:i] + "\x00" + text[i:]
        return "\n\n" + text.replace("\n", "\n\n", 3)
    t = tokens(text)
    words = [i for i, x in enumerate(t) if not x.isspace()]
    if not words:
        return rnd.choice(GARBAGE)
    if 0.42 <= kind < 0.47:
        # section insertion: a (possibly misplaced, possibly dangling) extra section or record
        ids = [t[i] for i in words if re.match(r"[A-Za-z_][A-Za-z0-9_.]*$", t[i]) and t[i] not in KEYWORDS] or ["zz"]
        nm = rnd.choice(ids + ["nosuchname"])
        sec = rnd.choice([["REFROW", " " + nm], ["OBJSENSE", " " + rnd.choice(["MAX", "MIN", "MAXIMUM"])], ["OBJNAME", " " + nm],
                          ["RANGES", " RNG " + nm + " 5"], ["BOUNDS", " " + rnd.choice(["UP", "LO", "FX", "FR", "MI", "PL", "BV", "LI", "UI"]) + " BND " + nm + " 3"],
                          [" S1 SOS1 'MARKER' 'SOSORG'", " " + nm + " " + rnd.choice(ids) + " 1", " SOS1 'MARKER' 'SOSEND'"],
                          ["RHS", " RHS " + nm + " 7"], ["Bounds", " " + nm + " <= 4"], ["Integer", " " + nm], ["Semi-continuous", " " + nm],
                          ["SOS", " s1: " + nm + ":1 " + rnd.choice(ids) + ":2"]])
        L = text.split("\n")
        pos = rnd.randrange(len(L) + 1)
        return "\n".join(L[:pos] + sec + L[pos:])
    if kind < 0.42:
        # cross-reference mutation: an identifier is replaced by another identifier of the same file (an objective name that
        # names a constraint row, a range or bound on the objective row, a row name used as a column, a repeated definition ...)
        ids = [i for i in words if re.match(r"[A-Za-z_][A-Za-z0-9_.\[\]]*$", t[i]) and t[i] not in KEYWORDS]
        if len(ids) >= 2:
            for _ in range(rnd.choice([1, 1, 2, 3])):
                i, j = rnd.choice(ids), rnd.choice(ids)
                if rnd.random() < 0.3:
                    nm, to = t[i], t[j]
                    lo = rnd.randrange(len(t))
                    hi = min(len(t), lo + rnd.randint(5, 80))
                    for q in range(lo, hi):
                        if t[q] == nm:
                            t[q] = to
                else:
                    t[i] = t[j]
            return "".join(t)
    for _ in range(nmut or rnd.choice([1, 1, 1, 2, 3, 6])):
        i = rnd.choice(words)
        op = rnd.random()
        if op < 0.2:
            t[i] = ""
        elif op < 0.35:
            t[i] = t[i] + " " + t[i]
        elif op < 0.5:
            j = rnd.choice(words)
            t[i], t[j] = t[j], t[i]
        elif op < 0.65:
            t[i] = rnd.choice(KEYWORDS)
        elif op < 0.85:
            t[i] = rnd.choice(NUMBERS)
        elif op < 0.95:
            t[i] = rnd.choice(GARBAGE)
        else:
            w = t[i]
            if w:
                k = rnd.randrange(len(w))
                t[i] = w[:k] + chr(rnd.randrange(1, 256)) + w[k + 1:]
    return "".join(t)


def to_bytes(s):
    return s.encode("latin-1", errors="replace") if isinstance(s, str) else s


def semantic_error(text, fmt, rnd):
    """one corruption that is lexically and syntactically fine and is only found out by the readers' late validation passes
    (after the whole file has been parsed and most structures have been allocated): the early-exit paths of C11/C18/C20."""
    L = text.split("\n")
    ids = [w for w in re.findall(r"[A-Za-z_][A-Za-z0-9_.]*", text) if w not in KEYWORDS and len(w) > 1] or ["zz"]
    up = [l.strip().upper() for l in L]

    def sec(name):
        return up.index(name) if name in up else None

    if fmt == "MPS":
        rows_at, cols_at, end_at = sec("ROWS"), sec("COLUMNS"), sec("ENDATA")
        if rows_at is None or cols_at is None or end_at is None:
            return text
        rownames = [l.split()[1] for l in L[rows_at + 1:cols_at] if len(l.split()) >= 2]
        consrows = [l.split()[1] for l in L[rows_at + 1:cols_at] if len(l.split()) >= 2 and l.split()[0].upper() in ("L", "G", "E")]
        colnames = list(dict.fromkeys(l.split()[0] for l in L[cols_at + 1:end_at] if l.startswith(" ") and len(l.split()) >= 3 and "'MARKER'" not in l))
        choice = rnd.choice(["refrow-unknown", "refrow-col", "objname-ranged", "lo>up", "sos-int", "sos-dup-weight", "range-unknown", "rhs-unknown",
                             "bound-unknown", "col-twice", "row-twice", "neg-up", "range-on-n"])
        ins = lambda at, lines: L[:at] + lines + L[at:]
        if choice == "refrow-unknown":
            return "\n".join(ins(rows_at, ["REFROW", " nosuchrow"]))
        if choice == "refrow-col" and colnames:
            return "\n".join(ins(rows_at, ["REFROW", " " + rnd.choice(colnames)]))
        if choice == "objname-ranged" and consrows:
            r = rnd.choice(consrows)
            out = [l for l in L if l.strip().upper() != "OBJNAME"]
            out = ins(up.index("ROWS") if "ROWS" in [x.strip().upper() for x in out] else 1, [])
            k = [x.strip().upper() for x in out].index("ROWS")
            out = out[:k] + ["OBJNAME", " " + r] + out[k:]
            e = [x.strip().upper() for x in out].index("ENDATA")
            return "\n".join(out[:e] + ["RANGES", " RNGX " + r + " 3"] + out[e:])
        if choice == "lo>up" and colnames:
            c = rnd.choice(colnames)
            return "\n".join(ins(end_at, ["BOUNDS", " LO BNDX " + c + " 5", " UP BNDX " + c + " 1"]))
        if choice in ("sos-int", "sos-dup-weight") and colnames and consrows:
            c = rnd.choice(colnames)
            body = [l for l in L[cols_at + 1:end_at] if l.startswith(" ") and l.split() and l.split()[0] == c]
            rest = [l for l in L[cols_at + 1:end_at] if not (l.startswith(" ") and l.split() and l.split()[0] == c)]
            if choice == "sos-int":
                blk = [" MI1 'MARKER' 'INTORG'", " S1 SS9 'MARKER' 'SOSORG'"] + body + [" SS9 'MARKER' 'SOSEND'", " MI2 'MARKER' 'INTEND'"]
                return "\n".join(L[:cols_at + 1] + blk + rest)
            r = rnd.choice(consrows)
            blk = [" S2 SS9 'MARKER' 'SOSORG'", " %s %s 2" % (c, r), " zzdup %s 2" % r, " SS9 'MARKER' 'SOSEND'"]
            rest2 = [l for l in rest]
            return "\n".join(L[:rows_at] + ["REFROW", " " + r] + L[rows_at:cols_at + 1] + blk + rest2)
        if choice == "range-unknown":
            return "\n".join(ins(end_at, ["RANGES", " RNGX nosuchrow 3"]))
        if choice == "rhs-unknown":
            return "\n".join(ins(end_at, ["RHS", " RHSX nosuchrow 3"]))
        if choice == "bound-unknown":
            return "\n".join(ins(end_at, ["BOUNDS", " UP BNDX nosuchcol 3"]))
        if choice == "col-twice" and colnames and consrows:
            return "\n".join(ins(end_at if sec("RHS") is None else sec("RHS"), [" %s %s 1" % (colnames[0], rnd.choice(consrows))]))
        if choice == "row-twice" and rownames:
            return "\n".join(ins(cols_at, [" L " + rnd.choice(rownames)]))
        if choice == "neg-up" and colnames:
            return "\n".join(ins(end_at, ["BOUNDS", " UP BNDX " + rnd.choice(colnames) + " -3"]))
        if choice == "range-on-n":
            nrow = [l.split()[1] for l in L[rows_at + 1:cols_at] if len(l.split()) >= 2 and l.split()[0].upper() == "N"]
            if nrow:
                return "\n".join(ins(end_at, ["RANGES", " RNGX " + nrow[0] + " 3"]))
        return text
    # LP
    end_at = max((i for i, l in enumerate(up) if l == "END"), default=len(L))
    nm = rnd.choice(ids)
    choice = rnd.choice(["lo>up", "int-unknown", "row-twice", "bound-unknown", "free-then-bound", "empty-st", "obj-only-const"])
    if choice == "lo>up":
        return "\n".join(L[:end_at] + ["Bounds", " 5 <= %s <= 1" % nm] + L[end_at:])
    if choice == "int-unknown":
        return "\n".join(L[:end_at] + ["Integer", " nosuchvar"] + L[end_at:])
    if choice == "row-twice":
        st = next((i for i, l in enumerate(up) if l in ("SUBJECT TO", "ST", "SUCH THAT", "S.T.") or l.startswith("SUBJECT")), None)
        if st is not None:
            return "\n".join(L[:st + 1] + [" dupr: %s >= 1" % nm, " dupr: %s <= 9" % nm] + L[st + 1:])
    if choice == "bound-unknown":
        return "\n".join(L[:end_at] + ["Bounds", " nosuchvar <= 4"] + L[end_at:])
    if choice == "free-then-bound":
        return "\n".join(L[:end_at] + ["Bounds", " %s free" % nm, " %s >= 2" % nm, " %s <= 1" % nm] + L[end_at:])
    if choice == "empty-st":
        return "\n".join(l for l in L if ":" not in l and "=" not in l)
    return text + "\nEnd\n"

