"""Token- and byte-level mutators for LP / MPS / basis texts (C11, C18, C20 workloads)."""
import re

KEYWORDS = ["Minimize", "MAX", "Subject To", "ST", "Bounds", "BOUND", "Integer", "End", "free", "inf", "-inf", "NAME", "ROWS", "COLUMNS", "RHS", "RANGES",
            "BOUNDS", "ENDATA", "OBJSENSE", "OBJNAME", "'MARKER'", "'INTORG'", "'INTEND'", "LO", "UP", "FX", "FR", "MI", "PL", "BV", "LI", "UI", "N", "L", "G",
            "E", "XU", "XL", "UL", "LL", "REFROW", "S1", "S2", "'SOSORG'", "'SOSEND'"]
NUMBERS = ["0", "1", "-1", "1/0", "0/0", "-3/0", "1e", "1e+", ".", "-", "+", "+-+-1", "1e4000", "1e-4000", "9" * 400, "1/" + "7" * 300, "0.000000000000000000001",
           "1.5/2.5", "--2", "1/2/3", "1e2e3", "0x10", "1,5", "١", "1e9999", "inf", "-infinity", "nan", "1d5"]
GARBAGE = ["\x00", "\x01\x02", "\t\t", "\r", ":", "::", "<=", ">=", "=<>", "\\", "%s%n", "(", ")", "'", "\"", "x" * 300, "é", "\xff\xfe", "<", ">", "=", "*", "^", "[", "]"]


def tokens(text):
    return re.findall(r"\s+|\S+", text)


def mutate(text, rnd, nmut=None):
    """returns a mutated variant (str).  mixture of token-level edits, truncation, line-level edits and byte noise"""
    kind = rnd.random()
    if kind < 0.12:
        # truncation at a random token boundary / byte
        if rnd.random() < 0.5:
            return text[:rnd.randrange(len(text) + 1)]
        t = tokens(text)
        return "".join(t[:rnd.randrange(len(t) + 1)])
    if kind < 0.22:
        # line level: drop, duplicate, swap, join
        L = text.split("\n")
        if len(L) > 1:
            i = rnd.randrange(len(L))
            op = rnd.choice(["drop", "dup", "swap", "join", "indent", "unindent"])
            if op == "drop":
                del L[i]
            elif op == "dup":
                L.insert(i, L[i])
            elif op == "swap":
                j = rnd.randrange(len(L))
                L[i], L[j] = L[j], L[i]
            elif op == "join" and i + 1 < len(L):
                L[i] = L[i] + " " + L.pop(i + 1)
            elif op == "indent":
                L[i] = "   " + L[i]
            else:
                L[i] = L[i].lstrip()
        return "\n".join(L)
    if kind < 0.30:
        # newline conventions / missing final newline / very long line or name
        sub = rnd.choice(["crlf", "nonl", "longname", "longline", "nul", "blank"])
        if sub == "crlf":
            return text.replace("\n", "\r\n")
        if sub == "nonl":
            return text.rstrip("\n")
        if sub == "longname":
            t = tokens(text)
            idx = [i for i, x in enumerate(t) if re.match(r"[A-Za-z_]", x)]
            if idx:
                i = rnd.choice(idx)
                long = t[i] + "q" * rnd.choice([70, 300, 5000, 70000])
                nm = t[i]
                return "".join(long if x == nm else x for x in t)
            return text
        if sub == "longline":
            return text.replace("\n", " ", rnd.randint(1, 50))
        if sub == "nul":
            i = rnd.randrange(len(text) + 1)
            return text[:i] + "\x00" + text[i:]
        return "\n\n" + text.replace("\n", "\n\n", 3)
    t = tokens(text)
    words = [i for i, x in enumerate(t) if not x.isspace()]
    if not words:
        return rnd.choice(GARBAGE)
    if kind < 0.42:
        # cross-reference mutation: an identifier is replaced by another identifier of the same file (an objective name that
        # names a constraint row, a range or bound on the objective row, a row name used as a column, a repeated definition ...)
        ids = [i for i in words if re.match(r"[A-Za-z_][A-Za-z0-9_.\[\]]*$", t[i]) and t[i] not in KEYWORDS]
        if len(ids) >= 2:
            for _ in range(rnd.choice([1, 1, 2, 3])):
                i, j = rnd.choice(ids), rnd.choice(ids)
                if rnd.random() < 0.3:
                    nm, to = t[i], t[j]
                    lo = rnd.randrange(len(t))
                    hi = min(len(t), lo + rnd.randint(5, 80))
                    for q in range(lo, hi):
                        if t[q] == nm:
                            t[q] = to
                else:
                    t[i] = t[j]
            return "".join(t)
    for _ in range(nmut or rnd.choice([1, 1, 1, 2, 3, 6])):
        i = rnd.choice(words)
        op = rnd.random()
        if op < 0.2:
            t[i] = ""
        elif op < 0.35:
            t[i] = t[i] + " " + t[i]
        elif op < 0.5:
            j = rnd.choice(words)
            t[i], t[j] = t[j], t[i]
        elif op < 0.65:
            t[i] = rnd.choice(KEYWORDS)
        elif op < 0.85:
            t[i] = rnd.choice(NUMBERS)
        elif op < 0.95:
            t[i] = rnd.choice(GARBAGE)
        else:
            w = t[i]
            if w:
                k = rnd.randrange(len(w))
                t[i] = w[:k] + chr(rnd.randrange(1, 256)) + w[k + 1:]
    return "".join(t)


def to_bytes(s):
    return s.encode("latin-1", errors="replace") if isinstance(s, str) else s
