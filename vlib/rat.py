"""Exact rationals with +-infinity for bounds.  Finite values are fractions.Fraction; infinite bounds are
the floats math.inf / -math.inf (comparison Fraction<->float inf is exact in Python)."""
from fractions import Fraction
import sys
if hasattr(sys, "set_int_max_str_digits"):
    sys.set_int_max_str_digits(0)      # literals of tens of thousands of digits are part of the workloads
import math

INF = math.inf
NINF = -math.inf
# what the library calls infinity: mpq_set_d(1e150)
LIB_INF = Fraction(1e150)


def parse(s):
    """event-log string -> Fraction | +-inf"""
    if s is None:
        return None
    if s == "inf" or s == "+inf":
        return INF
    if s == "-inf":
        return NINF
    return Fraction(s)


def parse_list(a):
    return None if a is None else [parse(x) for x in a]


def fmt(v):
    """Fraction | +-inf -> script token"""
    if v == INF:
        return "inf"
    if v == NINF:
        return "-inf"
    v = Fraction(v)
    return str(v.numerator) if v.denominator == 1 else "%d/%d" % (v.numerator, v.denominator)


def isinf(v):
    return v == INF or v == NINF


def F(x, y=1):
    return Fraction(x, y)
