"""O-model: reference LP store with the documented meaning of every edit call, plus comparison with the
driver's `dump`/`dumpx` records and script rendering."""
from fractions import Fraction
import copy as _copy
from .rat import INF, NINF, parse, parse_list, fmt, isinf

MIN, MAX = 1, -1


class Col:
    __slots__ = ("name", "obj", "lo", "up", "isint", "uid")
    _n = 0

    def __init__(self, name, obj, lo, up, isint=0):
        self.name, self.obj, self.lo, self.up, self.isint = name, Fraction(obj), lo, up, isint
        Col._n += 1
        self.uid = Col._n


class Row:
    __slots__ = ("name", "sense", "rhs", "range", "coef")

    def __init__(self, name, sense, rhs, rng=0, coef=None):
        self.name, self.sense, self.rhs, self.range = name, sense, Fraction(rhs), Fraction(rng)
        self.coef = dict(coef or {})  # Col -> Fraction (non-zero)

    def lohi(self):
        """activity interval [lo,hi] of a.x"""
        if self.sense == "L":
            return NINF, self.rhs
        if self.sense == "G":
            return self.rhs, INF
        if self.sense == "E":
            return self.rhs, self.rhs
        if self.sense == "R":
            return self.rhs, self.rhs + self.range
        raise ValueError(self.sense)


class LP:
    def __init__(self, name="prob", objsense=MIN):
        self.name = name
        self.objsense = objsense
        self.cols = []
        self.rows = []

    # ------------------------------------------------------------ basic access
    @property
    def ncols(self):
        return len(self.cols)

    @property
    def nrows(self):
        return len(self.rows)

    def nz(self):
        return sum(len(r.coef) for r in self.rows)

    def a(self, i, j):
        return self.rows[i].coef.get(self.cols[j], Fraction(0))

    def colindex(self):
        return {c: j for j, c in enumerate(self.cols)}

    def dense(self):
        ci = self.colindex()
        A = [[Fraction(0)] * self.ncols for _ in self.rows]
        for i, r in enumerate(self.rows):
            for c, v in r.coef.items():
                A[i][ci[c]] = v
        return A

    def clone(self):
        m = LP(self.name, self.objsense)
        mp = {}
        for c in self.cols:
            n = Col(c.name, c.obj, c.lo, c.up, c.isint)
            mp[c] = n
            m.cols.append(n)
        for r in self.rows:
            m.rows.append(Row(r.name, r.sense, r.rhs, r.range, {mp[c]: v for c, v in r.coef.items()}))
        return m

    def wellformed(self):
        return all(c.lo <= c.up for c in self.cols) and all(r.range >= 0 for r in self.rows)

    def key(self):
        """hashable identity of the mathematical problem (names excluded)"""
        ci = self.colindex()
        return (self.objsense, tuple((c.obj, c.lo, c.up) for c in self.cols),
                tuple((r.sense, r.rhs, r.range if r.sense == "R" else 0,
                       tuple(sorted((ci[c], v) for c, v in r.coef.items()))) for r in self.rows))

    # ------------------------------------------------------------ edits (documented meaning)
    # each returns nothing; invalid arguments are the generator's responsibility
    def new_col(self, obj, lo, up, name):
        self.cols.append(Col(name, obj, lo, up))

    def add_col(self, obj, lo, up, name, ents):
        c = Col(name, obj, lo, up)
        self.cols.append(c)
        for i, v in ents:
            if v != 0:
                self.rows[i].coef[c] = Fraction(v)
            # an explicit zero is a stored zero: not part of the mathematical problem

    def new_row(self, rhs, sense, name):
        self.rows.append(Row(name, sense, rhs, 0))

    def add_row(self, rhs, sense, name, ents, rng=0):
        r = Row(name, sense, rhs, rng if sense == "R" else 0)
        for j, v in ents:
            if v != 0:
                r.coef[self.cols[j]] = Fraction(v)
        self.rows.append(r)

    def delete_rows(self, idx):
        s = set(idx)
        self.rows = [r for i, r in enumerate(self.rows) if i not in s]

    def delete_cols(self, idx):
        s = set(idx)
        dead = [c for j, c in enumerate(self.cols) if j in s]
        self.cols = [c for j, c in enumerate(self.cols) if j not in s]
        for r in self.rows:
            for c in dead:
                r.coef.pop(c, None)

    def change_sense(self, i, s):
        r = self.rows[i]
        r.sense = s
        # documented: a row turned into 'R' is an equation until QSchange_range gives it a range
        r.range = Fraction(0)

    def change_coef(self, i, j, v):
        c = self.cols[j]
        if v == 0:
            self.rows[i].coef.pop(c, None)
        else:
            self.rows[i].coef[c] = Fraction(v)

    def change_objcoef(self, j, v):
        self.cols[j].obj = Fraction(v)

    def change_rhscoef(self, i, v):
        self.rows[i].rhs = Fraction(v)

    def change_range(self, i, v):
        self.rows[i].range = Fraction(v)

    def change_bound(self, j, lu, v):
        c = self.cols[j]
        if lu in ("L", "B"):
            c.lo = v
        if lu in ("U", "B"):
            c.up = v

    def change_objsense(self, s):
        self.objsense = s

    # ------------------------------------------------------------ op tuples: apply + render
    def apply(self, op):
        k = op[0]
        if k == "new_col":
            self.new_col(*op[1:])
        elif k == "add_col":
            self.add_col(*op[1:])
        elif k == "add_cols":
            for (obj, lo, up, name, ents) in op[1]:
                self.add_col(obj, lo, up, name, ents)
        elif k == "new_row":
            self.new_row(*op[1:])
        elif k == "add_row":
            self.add_row(op[1], op[2], op[3], op[4])
        elif k == "add_ranged_row":
            self.add_row(op[1], op[2], op[4], op[5], op[3])
        elif k == "add_rows":
            for (rhs, sense, name, ents) in op[1]:
                self.add_row(rhs, sense, name, ents)
        elif k == "add_ranged_rows":
            for (rhs, sense, rng, name, ents) in op[1]:
                self.add_row(rhs, sense, name, ents, rng)
        elif k in ("delete_row",):
            self.delete_rows([op[1]])
        elif k in ("delete_rows",):
            self.delete_rows(op[1])
        elif k == "delete_setrows":
            self.delete_rows([i for i, f in enumerate(op[1]) if f])
        elif k == "delete_named_row":
            self.delete_rows([self.rowidx(op[1])])
        elif k == "delete_named_rows_list":
            self.delete_rows([self.rowidx(n) for n in op[1]])
        elif k == "delete_col":
            self.delete_cols([op[1]])
        elif k == "delete_cols":
            self.delete_cols(op[1])
        elif k == "delete_setcols":
            self.delete_cols([j for j, f in enumerate(op[1]) if f])
        elif k == "delete_named_column":
            self.delete_cols([self.colidx(op[1])])
        elif k == "delete_named_columns_list":
            self.delete_cols([self.colidx(n) for n in op[1]])
        elif k == "change_sense":
            self.change_sense(op[1], op[2])
        elif k == "change_senses":
            for i, s in op[1]:
                self.change_sense(i, s)
        elif k == "change_coef":
            self.change_coef(op[1], op[2], op[3])
        elif k == "change_objcoef":
            self.change_objcoef(op[1], op[2])
        elif k == "change_rhscoef":
            self.change_rhscoef(op[1], op[2])
        elif k == "change_range":
            self.change_range(op[1], op[2])
        elif k == "change_bound":
            self.change_bound(op[1], op[2], op[3])
        elif k == "change_bounds":
            for j, lu, v in op[1]:
                self.change_bound(j, lu, v)
        elif k == "change_objsense":
            self.change_objsense(op[1])
        else:
            raise ValueError("unknown op %r" % (k,))

    def rowidx(self, name):
        for i, r in enumerate(self.rows):
            if r.name == name:
                return i
        raise KeyError(name)

    def colidx(self, name):
        for j, c in enumerate(self.cols):
            if c.name == name:
                return j
        raise KeyError(name)


def nm(s):
    """a name as a script token; empty names and names with white space (or a leading '%' / '~') are percent-encoded"""
    if s is None:
        return "~"
    if s == "" or s[0] in "%~" or any(ch.isspace() for ch in s):
        return "%" + "".join(ch if (ch.isalnum() or ch in "_.-") else "%%%02x" % ord(ch) for ch in s)
    return s


def ents_s(ents):
    return "%d %s" % (len(ents), " ".join("%d %s" % (i, fmt(v)) for i, v in ents)) if ents else "0"


def sense_s(s):
    return "max" if s == MAX else "min"


def render(op, slot="p0"):
    """op tuple -> script line"""
    k = op[0]
    if k == "new_col":
        return "new_col %s %s %s %s %s" % (slot, fmt(op[1]), fmt(op[2]), fmt(op[3]), nm(op[4]))
    if k == "add_col":
        return "add_col %s %s %s %s %s %s" % (slot, fmt(op[1]), fmt(op[2]), fmt(op[3]), nm(op[4]), ents_s(op[5]))
    if k == "add_cols":
        return "add_cols %s %d %s" % (slot, len(op[1]), " ".join(
            "%s %s %s %s %s" % (fmt(o), fmt(l), fmt(u), nm(n), ents_s(e)) for (o, l, u, n, e) in op[1]))
    if k == "new_row":
        return "new_row %s %s %s %s" % (slot, fmt(op[1]), op[2], nm(op[3]))
    if k == "add_row":
        return "add_row %s %s %s %s %s" % (slot, fmt(op[1]), op[2], nm(op[3]), ents_s(op[4]))
    if k == "add_ranged_row":
        return "add_ranged_row %s %s %s %s %s %s" % (slot, fmt(op[1]), op[2], fmt(op[3]), nm(op[4]), ents_s(op[5]))
    if k == "add_rows":
        return "add_rows %s %d %s" % (slot, len(op[1]), " ".join(
            "%s %s %s %s" % (fmt(r), s, nm(n), ents_s(e)) for (r, s, n, e) in op[1]))
    if k == "add_ranged_rows":
        return "add_ranged_rows %s %d %s" % (slot, len(op[1]), " ".join(
            "%s %s %s %s %s" % (fmt(r), s, fmt(g), nm(n), ents_s(e)) for (r, s, g, n, e) in op[1]))
    if k in ("delete_row", "delete_col"):
        return "%s %s %d" % (k, slot, op[1])
    if k in ("delete_rows", "delete_cols", "delete_setrows", "delete_setcols"):
        return "%s %s %d %s" % (k, slot, len(op[1]), " ".join(str(i) for i in op[1]))
    if k in ("delete_named_row", "delete_named_column"):
        return "%s %s %s" % (k, slot, op[1])
    if k in ("delete_named_rows_list", "delete_named_columns_list"):
        return "%s %s %d %s" % (k, slot, len(op[1]), " ".join(op[1]))
    if k == "change_sense":
        return "change_sense %s %d %s" % (slot, op[1], op[2])
    if k == "change_senses":
        return "change_senses %s %d %s" % (slot, len(op[1]), " ".join("%d %s" % (i, s) for i, s in op[1]))
    if k == "change_coef":
        return "change_coef %s %d %d %s" % (slot, op[1], op[2], fmt(op[3]))
    if k in ("change_objcoef", "change_rhscoef", "change_range"):
        return "%s %s %d %s" % (k, slot, op[1], fmt(op[2]))
    if k == "change_bound":
        return "change_bound %s %d %s %s" % (slot, op[1], op[2], fmt(op[3]))
    if k == "change_bounds":
        return "change_bounds %s %d %s" % (slot, len(op[1]), " ".join("%d %s %s" % (j, lu, fmt(v)) for j, lu, v in op[1]))
    if k == "change_objsense":
        return "change_objsense %s %s" % (slot, sense_s(op[1]))
    raise ValueError(k)


def script_load(m, slot="p0"):
    """one `load` line building the whole model through QSload_prob (no ranged rows possible there)"""
    ci = m.colindex()
    percol = [[] for _ in m.cols]
    for i, r in enumerate(m.rows):
        for c, v in r.coef.items():
            percol[ci[c]].append((i, v))
    parts = ["load", slot, nm(m.name), sense_s(m.objsense), str(m.ncols), str(m.nrows)]
    for j, c in enumerate(m.cols):
        parts += [nm(c.name), fmt(c.obj), fmt(c.lo), fmt(c.up), ents_s(sorted(percol[j]))]
    for r in m.rows:
        parts += [nm(r.name), r.sense, fmt(r.rhs)]
    return " ".join(parts)


def script_build(m, slot="p0", rowwise=True):
    """create + new_col + add_(ranged_)row lines"""
    out = ["create %s %s %s" % (slot, nm(m.name), sense_s(m.objsense))]
    ci = m.colindex()
    if rowwise:
        for c in m.cols:
            out.append(render(("new_col", c.obj, c.lo, c.up, c.name), slot))
        for r in m.rows:
            ents = sorted((ci[c], v) for c, v in r.coef.items())
            if r.sense == "R":
                out.append(render(("add_ranged_row", r.rhs, "R", r.range, r.name, ents), slot))
            else:
                out.append(render(("add_row", r.rhs, r.sense, r.name, ents), slot))
    else:
        for r in m.rows:
            if r.sense == "R":
                out.append(render(("add_ranged_row", r.rhs, "R", r.range, r.name, []), slot))
            else:
                out.append(render(("new_row", r.rhs, r.sense, r.name), slot))
        percol = [[] for _ in m.cols]
        for i, r in enumerate(m.rows):
            for c, v in r.coef.items():
                percol[ci[c]].append((i, v))
        for j, c in enumerate(m.cols):
            out.append(render(("add_col", c.obj, c.lo, c.up, c.name, sorted(percol[j])), slot))
    return out


def script_any(m, slot="p0", rnd=None):
    """pick a construction route valid for m"""
    has_r = any(r.sense == "R" for r in m.rows)
    choice = rnd.randrange(3) if rnd else 1
    if choice == 0 and not has_r and m.ncols > 0:
        return [script_load(m, slot)]
    return script_build(m, slot, rowwise=(choice != 2))


# ---------------------------------------------------------------- comparison with a dump record
def _sparse_rows(d, key):
    """rows structure -> list of dict{col:val} plus per-row explicit zero count"""
    rr = d[key]
    if rr["rc"] != 0:
        return None
    cnt, beg, ind, val = rr.get("cnt") or [], rr.get("beg") or [], rr.get("ind") or [], rr.get("val") or []
    out = []
    for i in range(len(cnt)):
        e = {}
        for t in range(beg[i], beg[i] + cnt[i]):
            if ind[t] in e:
                e[ind[t]] = ("DUP", e[ind[t]], parse(val[t]))
            else:
                e[ind[t]] = parse(val[t])
        out.append(e)
    return out


def compare_dump(m, d, resolve_names=True, ext=None):
    """returns list of discrepancy strings between model m and dump record d (from `dump`/`dumpx`).
    Unnamed (None) model names are resolved from the dump when resolve_names."""
    bad = []
    if d.get("rc") != 0:
        return ["dump failed rc=%r" % d.get("rc")]
    if d["ncols"] != m.ncols:
        bad.append("colcount %d != model %d" % (d["ncols"], m.ncols))
    if d["nrows"] != m.nrows:
        bad.append("rowcount %d != model %d" % (d["nrows"], m.nrows))
    if bad:
        return bad
    for k, fn in (("rr_unset", "QSget_ranged_rows"), ("rows_unset", "QSget_rows"), ("cols_unset", "QSget_columns")):
        if d.get(k):
            bad.append("outputs left unset by %s on the empty problem (returned 0; %d pointers untouched)" % (fn, d[k]))
    if bad:
        return bad
    # an accessor asked for a zero-length array may refuse: there is nothing to observe then
    zero_ok = {"obj_rc": m.ncols, "bounds_rc": m.ncols, "colnames_rc": m.ncols, "rhs_rc": m.nrows, "senses_rc": m.nrows, "rownames_rc": m.nrows}
    for k in ("objsense_rc", "obj_rc", "rhs_rc", "senses_rc", "bounds_rc", "colnames_rc", "rownames_rc"):
        if d.get(k) != 0 and zero_ok.get(k, 1) != 0:
            bad.append("%s=%r" % (k, d.get(k)))
    if bad:
        return bad
    if d["objsense"] != m.objsense:
        bad.append("objsense %r != model %r" % (d["objsense"], m.objsense))
    obj, rhs, lo, up = parse_list(d["obj"]), parse_list(d["rhs"]), parse_list(d["lower"]), parse_list(d["upper"])
    for j, c in enumerate(m.cols):
        if obj[j] != c.obj:
            bad.append("obj[%d] %s != model %s" % (j, obj[j], c.obj))
        if lo[j] != c.lo:
            bad.append("lower[%d] %s != model %s" % (j, lo[j], c.lo))
        if up[j] != c.up:
            bad.append("upper[%d] %s != model %s" % (j, up[j], c.up))
    for i, r in enumerate(m.rows):
        if rhs[i] != r.rhs:
            bad.append("rhs[%d] %s != model %s" % (i, rhs[i], r.rhs))
        if d["senses"][i] != r.sense:
            bad.append("sense[%d] %r != model %r" % (i, d["senses"][i], r.sense))
    # names
    cn, rn = d["colnames"], d["rownames"]
    for nmlist, objs, what in ((cn, m.cols, "col"), (rn, m.rows, "row")):
        if len(set(nmlist)) != len(nmlist) or any((not x) for x in nmlist):
            bad.append("%s names not unique/non-empty: %r" % (what, nmlist[:20]))
        for x, o in zip(nmlist, objs):
            if o.name is None:
                if resolve_names:
                    o.name = x
            elif o.name != x:
                bad.append("%s name %r != model %r" % (what, x, o.name))
    if d.get("intflags_rc") == 0:
        for j, c in enumerate(m.cols):
            if (1 if d["intflags"][j] else 0) != (1 if c.isint else 0):
                bad.append("intflag[%d] %r != model %r" % (j, d["intflags"][j], c.isint))
    # matrix row-wise (ranged rows) and column-wise
    ci = m.colindex()
    nent = 0
    rr = _sparse_rows(d, "rr")
    if rr is None:
        bad.append("get_ranged_rows failed")
    else:
        if m.nrows and len(rr) != m.nrows:
            bad.append("get_ranged_rows returned %d rows" % len(rr))
        else:
            R = d["rr"]
            for i, r in enumerate(m.rows):
                got = {j: v for j, v in rr[i].items() if not (not isinstance(v, tuple) and v == 0)}
                nent += len(rr[i])
                want = {ci[c]: v for c, v in r.coef.items()}
                if got != want:
                    bad.append("row %d coefficients %r != model %r" % (i, got, want))
                if parse(R["rhs"][i]) != r.rhs:
                    bad.append("rr.rhs[%d] mismatch" % i)
                if R["sense"][i] != r.sense:
                    bad.append("rr.sense[%d] %r != %r" % (i, R["sense"][i], r.sense))
                # a row that is not (or no longer) a range row reports range 0
                if parse(R["range"][i]) != (r.range if r.sense == "R" else 0):
                    bad.append("range[%d] %s != model %s" % (i, R["range"][i], r.range if r.sense == "R" else 0))
                if R["names"][i] != rn[i]:
                    bad.append("rr.names[%d] %r != rownames %r" % (i, R["names"][i], rn[i]))
    cc = _sparse_rows(d, "cols")
    if cc is None:
        bad.append("get_columns failed")
    elif m.ncols:
        C = d["cols"]
        if len(cc) != m.ncols:
            bad.append("get_columns returned %d cols" % len(cc))
        else:
            nentc = 0
            for j, c in enumerate(m.cols):
                got = {i: v for i, v in cc[j].items() if not (not isinstance(v, tuple) and v == 0)}
                nentc += len(cc[j])
                want = {i: r.coef[c] for i, r in enumerate(m.rows) if c in r.coef}
                if got != want:
                    bad.append("col %d coefficients %r != model %r" % (j, got, want))
                if parse(C["obj"][j]) != c.obj or parse(C["lower"][j]) != c.lo or parse(C["upper"][j]) != c.up:
                    bad.append("cols obj/bounds[%d] mismatch" % j)
                if C["names"][j] != cn[j]:
                    bad.append("cols.names[%d] %r != colnames %r" % (j, C["names"][j], cn[j]))
            if rr is not None and m.nrows and nentc != nent:
                bad.append("row-wise entry count %d != column-wise %d" % (nent, nentc))
    # nzcount: stored entries (explicit zeros written by change_coef(...,0) are tolerated, see DESIGN)
    if rr is not None and (m.nrows or d["nz"] != 0) and d["nz"] != (nent if m.nrows else 0):
        bad.append("nzcount %d != stored entries %d (model nonzeros %d)" % (d["nz"], nent, m.nz()))
    if "coef" in d:
        bad += compare_ext(m, d)
    return bad


def compare_ext(m, d):
    bad = []
    ci = m.colindex()
    cn, rn = d["colnames"], d["rownames"]
    for j, (rc, idx) in enumerate(d["colidx"]):
        if rc != 0 or idx != j:
            bad.append("column_index(%r) -> rc %d idx %d, expected %d" % (cn[j], rc, idx, j))
    for i, (rc, idx) in enumerate(d["rowidx"]):
        if rc != 0 or idx != i:
            bad.append("row_index(%r) -> rc %d idx %d, expected %d" % (rn[i], rc, idx, i))
    if "coef" in d:
        A = m.dense()
        for i in range(m.nrows):
            for j in range(m.ncols):
                v = d["coef"][i][j]
                if v is None or parse(v) != A[i][j]:
                    bad.append("get_coef(%d,%d)=%r != model %s" % (i, j, v, A[i][j]))
    for j, c in enumerate(m.cols):
        l, u = d["bound"][j]
        if l is None or u is None or parse(l) != c.lo or parse(u) != c.up:
            bad.append("get_bound(%d) = %r,%r != model %s,%s" % (j, l, u, c.lo, c.up))
    n = m.ncols
    if d["bl_rc"] != 0 or d["ol_rc"] != 0:
        bad.append("list queries failed bl_rc=%r ol_rc=%r" % (d["bl_rc"], d["ol_rc"]))
    else:
        for t in range(n):
            c = m.cols[n - 1 - t]
            if parse(d["bl_lower"][t]) != c.lo or parse(d["bl_upper"][t]) != c.up:
                bad.append("bounds_list[%d] mismatch" % t)
            if parse(d["ol_obj"][t]) != c.obj:
                bad.append("obj_list[%d] mismatch" % t)
    cr = _sparse_rows(d, "cols_rev")
    if cr is None:
        bad.append("columns_list failed")
    elif n:
        for t in range(n):
            c = m.cols[n - 1 - t]
            got = {i: v for i, v in cr[t].items() if v != 0}
            want = {i: r.coef[c] for i, r in enumerate(m.rows) if c in r.coef}
            if got != want or d["cols_rev"]["names"][t] != cn[n - 1 - t]:
                bad.append("columns_list[%d] mismatch" % t)
    nr = m.nrows
    for key, ranged in (("rr_rev", True), ("rows_rev", False), ("rows", False)):
        rr = _sparse_rows(d, key)
        if rr is None:
            bad.append("%s failed" % key)
            continue
        if not nr:
            continue
        for t in range(nr):
            i = t if key == "rows" else nr - 1 - t
            r = m.rows[i]
            got = {j: v for j, v in rr[t].items() if v != 0}
            want = {ci[c]: v for c, v in r.coef.items()}
            R = d[key]
            if got != want or parse(R["rhs"][t]) != r.rhs or R["sense"][t] != r.sense or R["names"][t] != rn[i]:
                bad.append("%s[%d] mismatch" % (key, t))
            if ranged and parse(R["range"][t]) != (r.range if r.sense == "R" else 0):
                bad.append("%s[%d] range mismatch" % (key, t))
    if d.get("intcount_rc") == 0 and d["intcount"] != sum(1 for c in m.cols if c.isint):
        bad.append("intcount %d != model" % d["intcount"])
    return bad


def from_dump(d):
    """build a model from a dump record (used when the truth is what the library reports, e.g. after read)"""
    m = LP(d.get("probname") or "p", d["objsense"])
    obj, lo, up = parse_list(d["obj"]), parse_list(d["lower"]), parse_list(d["upper"])
    fl = d.get("intflags") or [0] * d["ncols"]
    for j in range(d["ncols"]):
        c = Col(d["colnames"][j], obj[j], lo[j], up[j], 1 if fl[j] else 0)
        m.cols.append(c)
    R = d["rr"]
    rr = _sparse_rows(d, "rr") or []
    for i in range(d["nrows"]):
        r = Row(R["names"][i], R["sense"][i], parse(R["rhs"][i]), parse(R["range"][i]) if R["sense"][i] == "R" else 0)
        for j, v in rr[i].items():
            if v != 0:
                r.coef[m.cols[j]] = v
        m.rows.append(r)
    return m
