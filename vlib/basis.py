"""O-basis: exact evaluation of a basis (cstat, rstat) of a model in the library's standard form
   a_i.x + sigma_i * s_i = rhs_i,  sigma = +1 (L,E) / -1 (G,R),  s_i in [0,inf) (L,G), [0,0] (E), [0,range] (R)."""
from fractions import Fraction as F
from .rat import INF, NINF, isinf

Z = F(0)


def std_columns(m):
    """-> list of (kind, index, lo, up, cost, column dict row->coef) for structurals then logicals"""
    cols = []
    for j, c in enumerate(m.cols):
        col = {i: r.coef[c] for i, r in enumerate(m.rows) if c in r.coef}
        cols.append(("s", j, c.lo, c.up, c.obj, col))
    for i, r in enumerate(m.rows):
        sg = F(1) if r.sense in ("L", "E") else F(-1)
        up = INF if r.sense in ("L", "G") else (Z if r.sense == "E" else r.range)
        cols.append(("l", i, Z, up, Z, {i: sg}))
    return cols


def solve_square(Mat, rhs_list):
    """Gaussian elimination with Fractions.  Mat: n x n list of lists; rhs_list: list of right-hand sides (each length n).
    returns list of solutions or None if singular"""
    n = len(Mat)
    A = [list(Mat[i]) + [r[i] for r in rhs_list] for i in range(n)]
    k = len(rhs_list)
    for c in range(n):
        p = None
        for r in range(c, n):
            if A[r][c] != 0:
                p = r
                break
        if p is None:
            return None
        A[c], A[p] = A[p], A[c]
        pv = A[c][c]
        A[c] = [v / pv for v in A[c]]
        for r in range(n):
            if r != c and A[r][c] != 0:
                f = A[r][c]
                A[r] = [a - f * b for a, b in zip(A[r], A[c])]
    return [[A[i][n + t] for i in range(n)] for t in range(k)]


def evaluate(m, cstat, rstat):
    """-> dict(valid, singular, pfeas, dfeas, value (user objective c.x), x (structurals), reason)"""
    cols = std_columns(m)
    n, nr = m.ncols, m.nrows
    stat = list(cstat[:n]) + list(rstat[:nr])
    basic = [t for t, s in enumerate(stat) if s == "1"]
    if len(basic) != nr:
        return dict(valid=False, reason="basic count %d != nrows %d" % (len(basic), nr))
    val = [None] * (n + nr)
    for t, s in enumerate(stat):
        kind, idx, lo, up, cost, col = cols[t]
        if s == "1":
            continue
        if s == "0":
            v = lo
        elif s == "2":
            v = up
        elif s == "3":
            v = Z
            if not (isinf(lo) and isinf(up)):
                # free status on a bounded column: the library puts it on a bound; treat as type-inconsistent
                return dict(valid=False, reason="status free on bounded column %d" % t)
        else:
            return dict(valid=False, reason="bad status char")
        if isinf(v):
            return dict(valid=False, reason="nonbasic at infinite bound (%d)" % t)
        val[t] = F(v)
    # B xB = b - N xN
    rhs = [r.rhs for r in m.rows]
    for t, s in enumerate(stat):
        if s != "1" and val[t] != 0:
            for i, a in cols[t][5].items():
                rhs[i] -= a * val[t]
    Bm = [[cols[t][5].get(i, Z) for t in basic] for i in range(nr)]
    if nr:
        sol = solve_square(Bm, [rhs])
        if sol is None:
            return dict(valid=True, singular=True)
        xb = sol[0]
        # pi^T B = cB^T  <=> B^T pi = cB
        BT = [[Bm[i][k] for i in range(nr)] for k in range(nr)]
        pi = solve_square(BT, [[cols[t][4] for t in basic]])[0]
    else:
        xb, pi = [], []
    for k, t in enumerate(basic):
        val[t] = xb[k]
    pfeas = True
    for t in basic:
        lo, up = cols[t][2], cols[t][3]
        if val[t] < lo or val[t] > up:
            pfeas = False
    s = F(m.objsense)
    dfeas = True
    for t, st in enumerate(stat):
        if st == "1":
            continue
        kind, idx, lo, up, cost, col = cols[t]
        d = cost - sum((pi[i] * a for i, a in col.items()), Z)
        d = s * d
        if lo == up:
            continue
        if st == "0" and d < 0:
            dfeas = False
        elif st == "2" and d > 0:
            dfeas = False
        elif st == "3" and d != 0:
            dfeas = False
    x = val[:n]
    value = sum((c.obj * x[j] for j, c in enumerate(m.cols)), Z)
    return dict(valid=True, singular=False, pfeas=pfeas, dfeas=dfeas, value=value, x=x, pi=pi, slackvals=val[n:])


def enumerate_bases(m, rnd=None, limit=None):
    """all type-consistent (cstat, rstat) strings with exactly nrows basics (optionally a random sample of `limit`)"""
    import itertools
    cols = std_columns(m)
    n, nr = m.ncols, m.nrows
    tot = n + nr
    combos = list(itertools.combinations(range(tot), nr))
    if rnd is not None:
        rnd.shuffle(combos)
    out = []
    for bs in combos:
        bset = set(bs)
        choices = []
        ok = True
        for t in range(tot):
            if t in bset:
                choices.append(["1"])
                continue
            kind, idx, lo, up, cost, col = cols[t]
            ch = []
            if kind == "s":
                if isinf(lo) and isinf(up):
                    ch = ["3"]
                else:
                    if not isinf(lo):
                        ch.append("0")
                    if not isinf(up):
                        ch.append("2")
            else:
                ch = ["0"]
                if m.rows[idx].sense == "R":
                    ch.append("2")
            if not ch:
                ok = False
                break
            choices.append(ch)
        if not ok:
            continue
        for asg in itertools.product(*choices):
            out.append(("".join(asg[:n]) or "-", "".join(asg[n:]) or "-"))
            if limit and len(out) >= limit:
                return out
    return out
