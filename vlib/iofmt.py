"""Grammar-driven LP / MPS text generators (written from the format descriptions, independent of the readers) and
name-based normal forms for comparing problems across write/read."""
from fractions import Fraction
from .model import LP, Col, Row, MIN, MAX
from .rat import INF, NINF, isinf

F = Fraction
KEYWORDS = {"min", "minimum", "minimize", "max", "maximum", "maximize", "subject", "st", "problem", "prob", "bounds", "bound",
            "integer", "int", "end", "free", "inf", "infinity", "to"}
NAMECH = "abcdefghijklmnopqrstuvwxyzABCDEFGHIJKLMNOPQRSTUVWXYZ"


def rnd_name(rnd, used, prefix="", special=False):
    while True:
        n = prefix + rnd.choice(NAMECH) + "".join(rnd.choice(NAMECH + "eE0123456789_") for _ in range(rnd.randint(0, 7)))
        if not prefix and rnd.random() < 0.06:
            # legal names that merely *begin* like a keyword of the LP format
            n = rnd.choice(["free", "FREE", "inf", "Inf", "infinity", "end", "st", "max", "min", "bound", "bounds", "int", "bin", "general", "subject"]) \
                + rnd.choice(NAMECH + "0123456789_") + "".join(rnd.choice(NAMECH + "0123456789_") for _ in range(rnd.randint(0, 3)))
        if special and rnd.random() < 0.3:
            n += rnd.choice("!#$%&/;?@_`'{}|~") + rnd.choice("0123456789")
        if n.lower() in KEYWORDS or n in used or n.lower() in ("inf", "infinity", "free"):
            continue
        used.add(n)
        return n


# ---------------------------------------------------------------- number spellings
def _dec_ok(q):
    while q % 2 == 0:
        q //= 2
    while q % 5 == 0:
        q //= 5
    return q == 1


def _decimal(v, rnd):
    """exact decimal string of non-negative v whose denominator is 2^a5^b"""
    k = 0
    w = v
    while w.denominator != 1:
        w *= 10
        k += 1
    s = str(w.numerator)
    if k == 0:
        return s + rnd.choice(["", ".", ".0", ".00"])
    s = s.rjust(k + 1, "0")
    ip, fp = s[:-k], s[-k:]
    if ip == "0" and rnd.random() < 0.3:
        ip = ""
    return ip + "." + fp + rnd.choice(["", "0", "00"])


def _expform(v, rnd):
    """mantissa e exponent, exact; only for decimal-representable v"""
    sh = rnd.randint(-6, 6)
    mant = v / F(10) ** sh
    if not _dec_ok(mant.denominator) or mant.denominator > 10 ** 12:
        return None
    m = _decimal(mant, rnd)
    if m.endswith("."):
        m = m + "0"
    e = rnd.choice("eE")
    if sh >= 0:
        return m + e + rnd.choice(["", "+"]) + rnd.choice(["", "0"]) + str(sh)
    return m + e + "-" + rnd.choice(["", "0"]) + str(-sh)


def spell(v, rnd, allow_frac=True):
    """a spelling of the non-negative rational v (sign is the caller's business)"""
    v = F(v)
    assert v >= 0
    forms = []
    if v.denominator == 1:
        s = str(v.numerator)
        forms += [s, s, s, "0" * rnd.randint(1, 3) + s, _decimal(v, rnd)]
    elif _dec_ok(v.denominator):
        forms += [_decimal(v, rnd), _decimal(v, rnd)]
    if _dec_ok(v.denominator):
        e = _expform(v, rnd)
        if e:
            forms.append(e)
    if allow_frac:
        forms.append("%d/%d" % (v.numerator, v.denominator))
        if rnd.random() < 0.3:
            k = rnd.choice([2, 3, 10, 1000])
            forms.append("%d/%d" % (v.numerator * k, v.denominator * k))
        if v.denominator != 1 and _dec_ok(v.denominator) is False and rnd.random() < 0.2:
            # decimal / decimal
            forms.append("%s/%s" % (_decimal(F(v.numerator, 10), rnd), _decimal(F(v.denominator, 10), rnd)))
    if not forms:
        forms.append("%d/%d" % (v.numerator, v.denominator))
    return rnd.choice(forms)


def sspell(v, rnd):
    """signed spelling as one token"""
    v = F(v)
    if v < 0:
        return "-" + spell(-v, rnd)
    return rnd.choice(["", "", "+"]) + spell(v, rnd)


def kw(rnd, *alts):
    w = rnd.choice(alts)
    t = rnd.random()
    return w.upper() if t < 0.3 else w.lower() if t < 0.6 else w.capitalize() if t < 0.9 else "".join(rnd.choice([c.upper(), c.lower()]) for c in w)


# ---------------------------------------------------------------- LP format
def _terms(rnd, ents, names):
    """list of tokens for a linear expression; ents = [(col, coef)] with non-zero coefs; may split/repeat terms"""
    toks = []
    items = []
    for c, v in ents:
        if rnd.random() < 0.12:
            # split one coefficient into two repeated terms
            a = F(rnd.randint(-5, 5), rnd.choice([1, 2, 3]))
            items += [(c, a), (c, v - a)] if a != 0 and v - a != 0 else [(c, v)]
        else:
            items.append((c, v))
    if rnd.random() < 0.2:
        rnd.shuffle(items)
    first = True
    for c, v in items:
        neg = v < 0
        mag = -v if neg else v
        sign = "-" if neg else ("" if first and rnd.random() < 0.7 else "+")
        nm = names[c]
        if mag == 1 and rnd.random() < 0.7:
            cf = ""
        else:
            cf = spell(mag, rnd)
        glue = rnd.random()
        if sign and cf and glue < 0.15:
            toks.append(sign + cf)          # "-3 x" with sign glued to the number
            toks.append(nm)
        else:
            if sign:
                toks.append(sign)
            if cf:
                toks.append(cf)
            toks.append(nm)
        first = False
    return toks


def _wrap(rnd, head, toks, width=None):
    """join tokens, breaking lines at random token boundaries; continuation lines are indented"""
    width = width or rnd.choice([40, 70, 200, 10 ** 6])
    lines = [head]
    for t in toks:
        if len(lines[-1]) + len(t) + 1 > width and lines[-1].strip():
            lines.append(" " * rnd.randint(1, 6))
        lines[-1] += (" " if not lines[-1].endswith(" ") else "") + t
    return lines


COMMENTS = ["\\ a comment between constraints", "\\ note: the next rows are tight", "\\ c99: x + y >= 2", "\\End", "\\ Bounds: none here",
            "\\ Subject To", "\\ 1/0 : inf", "\\", "\\\\ double \\ backslash : colon"]


def _sprinkle(rnd, lines):
    """comments are immaterial: whole-line comments between lines and trailing comments at line ends (also after nameless rows)"""
    out = []
    for ln in lines:
        t = rnd.random()
        if t < 0.04:
            out.append(rnd.choice(COMMENTS))
        if 0.04 <= t < 0.09 and ln.strip():
            ln = ln + rnd.choice(["  ", " ", ""]) + rnd.choice(COMMENTS)
        out.append(ln)
    return out


def lp_text(m, rnd, names=True, allnamed=False):
    """render model m (well-formed, every column used in obj or a row, no empty rows) as LP-format text"""
    cn = {c: c.name for c in m.cols}
    out = []
    if rnd.random() < 0.3:
        out.append("\\ generated test problem")
    if m.name and rnd.random() < 0.7:
        if rnd.random() < 0.5:
            out += [kw(rnd, "Problem", "Prob"), " " + m.name]
        else:
            out.append(kw(rnd, "Problem", "Prob") + " " + m.name)
    out.append(kw(rnd, "Minimize", "Min", "Minimum") if m.objsense == MIN else kw(rnd, "Maximize", "Max", "Maximum"))
    oents = [(c, c.obj) for c in m.cols if c.obj != 0]
    head = " " + (rnd.choice(["obj", "cost", "zfun"]) + ": " if rnd.random() < 0.7 else "")
    if not oents:
        # an objective needs at least one term in the file: 0 coefficient on some column
        out += _wrap(rnd, head, ["0", cn[m.cols[0]]])
    else:
        out += _wrap(rnd, head, _terms(rnd, oents, cn))
    if rnd.random() < 0.2:
        out.append("")
    out.append(rnd.choice([kw(rnd, "Subject To"), kw(rnd, "ST"), kw(rnd, "subject") + "  " + kw(rnd, "to"), "Subject To"]))
    expected = m.clone()
    emap = dict(zip(m.cols, expected.cols))
    rows_out = []
    for i, r in enumerate(m.rows):
        ents = sorted(r.coef.items(), key=lambda cv: m.cols.index(cv[0]))
        er = expected.rows[i]
        if r.sense == "R":
            # LP files have no range rows: two constraints
            lo, hi = r.rhs, r.rhs + r.range
            for s, b, nm in (("G", lo, r.name), ("L", hi, None)):
                rows_out.append((nm, ents, s, b))
        else:
            rows_out.append((r.name, ents, r.sense, r.rhs))
    # expected model: ranges split into two rows (second unnamed)
    newrows = []
    for r in expected.rows:
        if r.sense == "R":
            newrows.append(Row(r.name, "G", r.rhs, 0, r.coef))
            newrows.append(Row(None, "L", r.rhs + r.range, 0, r.coef))
        else:
            newrows.append(r)
    expected.rows = newrows
    for k, (nm, ents, s, b) in enumerate(rows_out):
        named = nm is not None and (allnamed or rnd.random() < 0.85)
        if not named:
            expected.rows[k].name = None
        head = " " + (nm + rnd.choice([": ", ":", " : "]) if named else rnd.choice(["", " ", "   "]))
        sense = {"L": rnd.choice(["<=", "<=", "=<", "<"]), "G": rnd.choice([">=", ">=", "=>", ">"]), "E": "="}[s]
        toks = _terms(rnd, ents, cn) + [sense, sspell(b, rnd)]
        out += _wrap(rnd, head, toks)
        if rnd.random() < 0.05:
            out.append("\\ a comment between constraints")
    # bounds
    blines = []
    for c in m.cols:
        lo, up = c.lo, c.up
        nm = c.name
        form = None
        inf_s = lambda: rnd.choice(["inf", "+inf", "Infinity", "+INFINITY", "INF"])
        ninf_s = lambda: rnd.choice(["-inf", "-Infinity", "-INF", "-infinity"])
        if c.isint:
            if (lo, up) == (0, 1) and rnd.random() < 0.6:
                continue                      # integer without bounds is binary
            if lo == 0 and up == INF:
                form = rnd.choice(["0 <= %s" % nm, "%s <= %s" % (nm, inf_s())])
        if form is None:
            if lo == 0 and up == INF:
                t = rnd.random()
                if t < 0.8:
                    continue
                form = rnd.choice(["0 <= %s" % nm, "%s <= %s" % (nm, inf_s()), "0 <= %s <= %s" % (nm, inf_s())])
            elif lo == NINF and up == INF:
                form = rnd.choice(["%s %s" % (nm, kw(rnd, "free")), "%s <= %s" % (ninf_s(), nm), "%s <= %s <= %s" % (ninf_s(), nm, inf_s())])
            elif lo == up:
                form = rnd.choice(["%s = %s" % (nm, sspell(lo, rnd)), "%s <= %s <= %s" % (sspell(lo, rnd), nm, sspell(up, rnd))])
            elif up == INF:
                form = "%s <= %s" % (sspell(lo, rnd), nm)
            elif lo == NINF:
                if up < 0 and rnd.random() < 0.5:
                    form = "%s <= %s" % (nm, sspell(up, rnd))      # negative upper bound alone implies lower = -inf
                else:
                    form = "%s <= %s <= %s" % (ninf_s(), nm, sspell(up, rnd))
            elif lo == 0 and up >= 0 and rnd.random() < 0.5:
                form = "%s <= %s" % (nm, sspell(up, rnd))
            else:
                form = "%s <= %s <= %s" % (sspell(lo, rnd), nm, sspell(up, rnd))
        blines.append(" " + form)
    if blines or rnd.random() < 0.2:
        out.append(kw(rnd, "Bounds", "Bound"))
        rnd.shuffle(blines)
        # several bound definitions may share a line
        i = 0
        while i < len(blines):
            if i + 1 < len(blines) and rnd.random() < 0.15:
                out.append(blines[i] + "  " + blines[i + 1])
                i += 2
            else:
                out.append(blines[i])
                i += 1
    ints = [c.name for c in m.cols if c.isint]
    if ints:
        out.append(kw(rnd, "Integer", "Integer", "Int"))
        out += _wrap(rnd, " ", ints, rnd.choice([30, 200]))
    out.append(kw(rnd, "End"))
    if rnd.random() < 0.5:
        out = _sprinkle(rnd, out)
    txt = "\n".join(out) + ("\n" if rnd.random() < 0.9 else "")
    return txt, expected


# ---------------------------------------------------------------- MPS format
def mps_text(m, rnd):
    """free-format MPS text for m; returns (text, expected model)"""
    used = set(c.name for c in m.cols) | set(r.name for r in m.rows)
    objn = rnd_name(rnd, used, "ob")
    sp = lambda: " " * rnd.randint(1, 4)
    out = []
    if rnd.random() < 0.2:
        out.append("* generated test problem")
    out.append("NAME" + sp() + (m.name or "noname"))
    if m.objsense == MAX:
        out += ["OBJSENSE", sp() + rnd.choice(["MAX", "Max", "max", "MAXIMIZE", "Maximize", "maximize"])]
    elif rnd.random() < 0.3:
        out += ["OBJSENSE", sp() + rnd.choice(["MIN", "Min", "min", "MINIMIZE", "Minimize", "minimize"])]
    first_n = rnd.random() < 0.5
    if not first_n or rnd.random() < 0.3:
        out += ["OBJNAME", sp() + objn]
    # SOS sets (decided here because a reference row has to be declared in ROWS): optionally the SOS weights come from a
    # reference row, an extra N row (no part of the LP) holding distinct weights
    use_sos = rnd.random() < 0.12
    refrow = rnd_name(rnd, used | {objn}, "wt") if (use_sos and rnd.random() < 0.5) else None
    if refrow:
        out += ["REFROW", sp() + refrow]
    out.append("ROWS")
    expected = m.clone()
    rowlines = []
    rep = {}
    for r in m.rows:
        if r.sense == "R":
            form = rnd.choice(["G", "L", "E+", "E-"])
            if form == "E-" and r.range == 0:
                form = "E+"
            rep[r] = form
            rowlines.append(" %s%s%s" % (form[0], sp(), r.name))
        else:
            rowlines.append(" %s%s%s" % (r.sense, sp(), r.name))
    nline = " N%s%s" % (sp(), objn)
    if first_n:
        rowlines.insert(0, nline)
    else:
        rowlines.insert(rnd.randint(0, len(rowlines)), nline)
    if refrow:
        rowlines.append(" N%s%s" % (sp(), refrow))
    out += rowlines
    out.append("COLUMNS")
    inint = False
    mk = 0
    marked_cols = {}
    # SOS sets (marker form) around runs of continuous columns: no effect on the LP, but the reader and writer carry them
    sos_left = 0
    sos_name = None
    refw = 0
    for c in m.cols:
        use_marker = bool(c.isint) and (rnd.random() < 0.6 or (c.lo == NINF and c.up == INF))
        if sos_left and (use_marker or c.isint):
            out.append(" %s%s'MARKER'%s'SOSEND'" % (sos_name, sp(), sp()))
            sos_left = 0
        if use_marker and not inint:
            mk += 1
            out.append(" MARKER%d%s'MARKER'%s'INTORG'" % (mk, sp(), sp()))
            inint = True
        if not use_marker and inint:
            mk += 1
            out.append(" MARKER%d%s'MARKER'%s'INTEND'" % (mk, sp(), sp()))
            inint = False
        marked_cols[c] = use_marker
        if use_sos and not sos_left and not inint and not c.isint and rnd.random() < 0.4:
            mk += 1
            sos_name = "SS%d" % mk
            out.append(" %s%s%s%s'MARKER'%s'SOSORG'" % (rnd.choice(["S1", "S2"]), sp(), sos_name, sp(), sp()))
            sos_left = rnd.randint(1, 3) + 1
        ents = []
        if c.obj != 0:
            ents.append((objn, c.obj))
        for r in m.rows:
            if c in r.coef:
                ents.append((r.name, r.coef[c]))
        if rnd.random() < 0.2:
            rnd.shuffle(ents)
        i = 0
        while i < len(ents):
            two = i + 1 < len(ents) and rnd.random() < 0.5
            ln = " %s%s%s%s%s" % (c.name, sp(), ents[i][0], sp(), sspell(ents[i][1], rnd))
            if two:
                ln += "%s%s%s%s" % (sp(), ents[i + 1][0], sp(), sspell(ents[i + 1][1], rnd))
                i += 1
            i += 1
            out.append(ln)
        if sos_left and refrow:
            refw += rnd.randint(1, 4)
            out.append(" %s%s%s%s%d" % (c.name, sp(), refrow, sp(), refw))
        if sos_left:
            sos_left -= 1
            if not sos_left:
                out.append(" %s%s'MARKER'%s'SOSEND'" % (sos_name, sp(), sp()))
    if sos_left:
        out.append(" %s%s'MARKER'%s'SOSEND'" % (sos_name, sp(), sp()))
    if inint:
        mk += 1
        out.append(" MARKER%d%s'MARKER'%s'INTEND'" % (mk, sp(), sp()))
    # RHS
    rhs = []
    rng = []
    for r in m.rows:
        if r.sense == "R":
            f = rep[r]
            lo, hi = r.rhs, r.rhs + r.range
            if f == "G":
                b, g = lo, r.range * rnd.choice([1, -1])
            elif f == "L":
                b, g = hi, r.range * rnd.choice([1, -1])
            elif f == "E+":
                b, g = lo, r.range
            else:
                b, g = hi, -r.range
            rng.append((r.name, g))
        else:
            b = r.rhs
        if b != 0 or rnd.random() < 0.2:
            rhs.append((r.name, b))
    setname = lambda base: rnd.choice([base, base, ""])
    if rhs or rnd.random() < 0.3:
        out.append("RHS")
        sn = setname("RHS")
        i = 0
        while i < len(rhs):
            ln = " %s%s%s%s%s" % (sn, sp() if sn else "", rhs[i][0], sp(), sspell(rhs[i][1], rnd))
            if i + 1 < len(rhs) and rnd.random() < 0.4:
                ln += "%s%s%s%s" % (sp(), rhs[i + 1][0], sp(), sspell(rhs[i + 1][1], rnd))
                i += 1
            i += 1
            out.append(ln)
    if rng:
        out.append("RANGES")
        sn = setname("RNG")
        for nm, g in rng:
            out.append(" %s%s%s%s%s" % (sn, sp() if sn else "", nm, sp(), sspell(g, rnd)))
    # BOUNDS
    bl = []
    # free-format MPS cannot tell a blank bound-set name from a column name on FR/MI/PL/BV lines (no number follows):
    # the bound set is always named here
    sn = "BND" if "BND" not in used else rnd_name(rnd, used, "BS")
    def B(t, c, v=None):
        bl.append(" %s%s%s%s%s%s" % (t, sp(), sn, sp() if sn else "", c.name, "" if v is None else sp() + sspell(v, rnd)))
    for c in m.cols:
        lo, up = c.lo, c.up
        marked = marked_cols[c]
        if c.isint and not marked:
            # integrality has to come from the bound type
            if (lo, up) == (0, 1):
                B("BV", c)
            elif up == INF and lo != NINF:
                B("LI", c, lo)
            elif lo == 0 and up != INF and up >= 0:
                B("UI", c, up)
            elif lo != NINF and up != INF:
                if rnd.random() < 0.5:
                    B("LI", c, lo); B("UP", c, up)
                else:
                    B("LO", c, lo); B("UI", c, up)
            elif lo == NINF and up != INF:
                B("MI", c); B("UI", c, up)
            else:
                raise AssertionError("free integer columns are always marked")
            continue
        if c.isint and marked:
            if (lo, up) == (0, 1) and rnd.random() < 0.6:
                continue                      # marked integer without bounds is binary
            if lo == 0 and up == INF:
                B("LO", c, F(0)) if rnd.random() < 0.5 else B("PL", c)
                continue
        if lo == 0 and up == INF:
            t = rnd.random()
            if t < 0.15:
                B("PL", c)
            elif t < 0.3:
                B("LO", c, F(0))
        elif lo == NINF and up == INF:
            if rnd.random() < 0.6:
                B("FR", c)
            else:
                B("MI", c)
                if rnd.random() < 0.5:
                    B("PL", c)
        elif lo == up:
            if rnd.random() < 0.7:
                B("FX", c, lo)
            else:
                B("LO", c, lo); B("UP", c, up)
        elif up == INF:
            B("LO", c, lo)
        elif lo == NINF:
            if up < 0 and rnd.random() < 0.5:
                B("UP", c, up)
            else:
                B("MI", c); B("UP", c, up)
        elif lo == 0 and up >= 0 and rnd.random() < 0.6:
            B("UP", c, up)
        else:
            B("LO", c, lo); B("UP", c, up)
    if bl:
        out.append("BOUNDS")
        out += bl
    out.append("ENDATA")
    return "\n".join(out) + "\n", expected


# ---------------------------------------------------------------- normal forms (matching by name)
def nf(m):
    cols = {}
    for c in m.cols:
        cols[c.name] = (c.obj, c.lo, c.up, 1 if c.isint else 0)
    named = {}
    anon = []
    for r in m.rows:
        if not r.coef:
            continue                          # empty rows are not representable
        ent = (r.sense, r.rhs, r.range if r.sense == "R" else F(0), tuple(sorted((c.name, v) for c, v in r.coef.items())))
        if r.name is None:
            anon.append(ent)
        else:
            named[r.name] = ent
    return dict(objsense=m.objsense, cols=cols, rows=named, anon=sorted(anon, key=repr))


def compare_nf(exp, got_model, anon_ok=True):
    """exp: nf dict of the expected model (may contain unnamed rows); got_model: LP read back (all rows named).
    returns list of discrepancies"""
    bad = []
    g = nf(got_model)
    if g["objsense"] != exp["objsense"]:
        bad.append("objective sense %r != expected %r" % (g["objsense"], exp["objsense"]))
    ec, gc = exp["cols"], g["cols"]
    for n in ec:
        if n not in gc:
            bad.append("column %s missing" % n)
        elif gc[n] != ec[n]:
            bad.append("column %s (obj,lo,up,int)=%s != expected %s" % (n, gc[n], ec[n]))
    for n in gc:
        if n not in ec:
            bad.append("unexpected column %s" % n)
    er, gr = exp["rows"], dict(g["rows"])
    for n in er:
        if n not in gr:
            bad.append("row %s missing" % n)
        else:
            if gr[n] != er[n]:
                bad.append("row %s = %s != expected %s" % (n, _short(gr[n]), _short(er[n])))
            del gr[n]
    rest = sorted(gr.values(), key=repr)
    if rest != exp["anon"]:
        bad.append("unnamed rows differ: got %s expected %s" % ([_short(x) for x in rest][:3], [_short(x) for x in exp["anon"]][:3]))
    return bad


def _short(e):
    return "(%s %s rng %s %s)" % (e[0], e[1], e[2], list(e[3])[:6])


def structure_sig(m):
    """name-free signature: multisets of column and row descriptions (for problems whose names get repaired)"""
    cols = sorted(((c.obj, c.lo, c.up, 1 if c.isint else 0, tuple(sorted(r.coef[c] for r in m.rows if c in r.coef))) for c in m.cols), key=repr)
    rows = sorted(((r.sense, r.rhs, r.range if r.sense == "R" else F(0), tuple(sorted((v for v in r.coef.values()), key=repr))) for r in m.rows if r.coef), key=repr)
    return (m.objsense, cols, rows)
