"""Script-side mirror of qsdrive: parses script lines back into op tuples and replays them on O-model objects,
in lockstep with the event log.  This makes a (script, event log) pair self-contained for judging/replay."""
from fractions import Fraction
from .rat import parse as _pq, INF, NINF
from .model import LP, MIN, MAX

SILENT = {"capture", "loghandler", "make_basis"}   # commands that write no event record


class Toks:
    def __init__(self, line):
        self.t = line.split()
        self.p = 0

    def n(self):
        v = self.t[self.p]
        self.p += 1
        return v

    def i(self):
        v = self.n()
        if v == "INT_MAX":
            return 2 ** 31 - 1
        if v == "INT_MIN":
            return -2 ** 31
        return int(v)

    def q(self):
        return _pq(self.n())

    def name(self):
        v = self.n()
        if v == "~":
            return None
        if v.startswith("%"):
            import re
            return re.sub(r"%([0-9a-fA-F]{2})", lambda m: chr(int(m.group(1), 16)), v[1:])
        return v

    def ch(self):
        v = self.n()
        if v[0] == "#":
            return chr(int(v[1:]) & 0xff)
        return v[0]

    def ents(self):
        c = self.i()
        return [(self.i(), self.q()) for _ in range(c)]

    def more(self):
        return self.p < len(self.t)

    def sense(self):
        v = self.n()
        return MAX if v == "max" else MIN if v == "min" else int(v)


def parse_line(line):
    """-> (cmd, slot or None, op tuple or None).  op tuples are those of model.LP.apply for edit commands."""
    t = Toks(line)
    cmd = t.n()
    if cmd in ("capture", "loghandler", "case", "cycle_mark", "version"):
        return cmd, None, None
    if cmd in ("make_basis", "dump_basis", "free_basis"):
        return cmd, None, t.t[1:]
    slot = t.n()
    op = None
    if cmd == "create":
        op = ("create", t.name(), t.sense())
    elif cmd == "load":
        name, s, nc, nr = t.name(), t.sense(), t.i(), t.i()
        cols = []
        for _ in range(nc):
            cn, o, l, u = t.name(), t.q(), t.q(), t.q()
            cols.append((cn, o, l, u, t.ents()))
        rows = [(t.name(), t.ch(), t.q()) for _ in range(nr)]
        op = ("load", name, s, cols, rows)
    elif cmd == "new_col":
        op = ("new_col", t.q(), t.q(), t.q(), t.name())
    elif cmd == "add_col":
        o, l, u, n = t.q(), t.q(), t.q(), t.name()
        op = ("add_col", o, l, u, n, t.ents())
    elif cmd == "add_cols":
        k = t.i()
        L = []
        for _ in range(k):
            o, l, u, n = t.q(), t.q(), t.q(), t.name()
            L.append((o, l, u, n, t.ents()))
        op = ("add_cols", L)
    elif cmd == "new_row":
        op = ("new_row", t.q(), t.ch(), t.name())
    elif cmd == "add_row":
        r, s, n = t.q(), t.ch(), t.name()
        op = ("add_row", r, s, n, t.ents())
    elif cmd == "add_ranged_row":
        r, s, g, n = t.q(), t.ch(), t.q(), t.name()
        op = ("add_ranged_row", r, s, g, n, t.ents())
    elif cmd == "add_rows":
        k = t.i()
        L = []
        for _ in range(k):
            r, s, n = t.q(), t.ch(), t.name()
            L.append((r, s, n, t.ents()))
        op = ("add_rows", L)
    elif cmd == "add_ranged_rows":
        k = t.i()
        L = []
        for _ in range(k):
            r, s, g, n = t.q(), t.ch(), t.q(), t.name()
            L.append((r, s, g, n, t.ents()))
        op = ("add_ranged_rows", L)
    elif cmd in ("delete_row", "delete_col"):
        op = (cmd, t.i())
    elif cmd in ("delete_rows", "delete_cols", "delete_setrows", "delete_setcols"):
        k = t.i()
        op = (cmd, [t.i() for _ in range(k)])
    elif cmd in ("delete_named_row", "delete_named_column"):
        op = (cmd, t.name())
    elif cmd in ("delete_named_rows_list", "delete_named_columns_list"):
        k = t.i()
        op = (cmd, [t.name() for _ in range(k)])
    elif cmd == "change_sense":
        op = (cmd, t.i(), t.ch())
    elif cmd == "change_senses":
        k = t.i()
        op = (cmd, [(t.i(), t.ch()) for _ in range(k)])
    elif cmd == "change_coef":
        op = (cmd, t.i(), t.i(), t.q())
    elif cmd in ("change_objcoef", "change_rhscoef", "change_range"):
        op = (cmd, t.i(), t.q())
    elif cmd == "change_bound":
        op = (cmd, t.i(), t.ch(), t.q())
    elif cmd == "change_bounds":
        k = t.i()
        op = (cmd, [(t.i(), t.ch(), t.q()) for _ in range(k)])
    elif cmd == "change_objsense":
        op = (cmd, t.sense())
    elif cmd == "copy":
        op = ("copy", t.n(), t.name())
    elif cmd in ("read_prob", "get_prob"):
        op = (cmd, t.n(), t.n())
    elif cmd == "free":
        op = ("free",)
    else:
        op = (cmd,) + tuple(t.t[2:])
    return cmd, slot, op


EDITS = {"new_col", "add_col", "add_cols", "new_row", "add_row", "add_ranged_row", "add_rows", "add_ranged_rows",
         "delete_row", "delete_col", "delete_rows", "delete_cols", "delete_setrows", "delete_setcols",
         "delete_named_row", "delete_named_column", "delete_named_rows_list", "delete_named_columns_list",
         "change_sense", "change_senses", "change_coef", "change_objcoef", "change_rhscoef", "change_range",
         "change_bound", "change_bounds", "change_objsense"}


def model_from_load(op):
    _, name, s, cols, rows = op
    m = LP(name or "noname", s)
    for (rn, sense, rhs) in rows:
        m.new_row(rhs, sense, rn)
    for (cn, o, l, u, ents) in cols:
        m.add_col(o, l, u, cn, ents)
    return m


def walk(script, events):
    """yields (lineno, cmd, slot, op, event, models) for every script line that produced an event record.
    `models` is the dict slot->LP *after* applying the line when its rc is 0 (edit commands), maintained here.
    A slot whose content is not known from the script (read_prob) maps to None until the caller assigns one."""
    models = {}
    it = iter(events)
    for ln, line in enumerate(script):
        s = line.strip()
        if not s or s[0] == "#":
            continue
        cmd, slot, op = parse_line(s)
        if cmd in SILENT or cmd == "case":
            continue
        try:
            ev = next(it)
        except StopIteration:
            return
        if ev.get("op") != cmd:
            raise ValueError("event log out of step at line %d: script %s, event %s" % (ln, cmd, ev.get("op")))
        pre = models.get(slot)
        if ev.get("rc") == 0:
            if cmd == "create":
                models[slot] = LP(op[1] or "noname", op[2])
            elif cmd == "load":
                models[slot] = model_from_load(op)
            elif cmd in EDITS and models.get(slot) is not None:
                try:
                    models[slot].apply(op)
                except (IndexError, KeyError, ValueError):
                    # the library accepted a call the reference model cannot interpret (invalid index/name)
                    ev["_model_error"] = True
                    models[slot] = None
            elif cmd == "copy":
                src = models.get(slot)
                models[op[1]] = src.clone() if src is not None else None
                if models[op[1]] is not None and op[2] is not None:
                    models[op[1]].name = op[2]
            elif cmd in ("read_prob", "get_prob"):
                models[slot] = None
            elif cmd == "free":
                models.pop(slot, None)
        elif cmd in ("read_prob", "get_prob", "create", "load"):
            models.pop(slot, None)
        yield ln, cmd, slot, op, ev, models
