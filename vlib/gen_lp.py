"""Seeded LP generators (families of DESIGN.md section 4).  Every generator returns model.LP objects with
explicit names (alphabet R*/C* that the library never generates itself)."""
from fractions import Fraction
import itertools
from .model import LP, Col, Row, MIN, MAX
from .rat import INF, NINF

F = Fraction


def _names(m):
    for j, c in enumerate(m.cols):
        if c.name is None:
            c.name = "C%d" % j
    for i, r in enumerate(m.rows):
        if r.name is None:
            r.name = "R%d" % i
    return m


def rnd_num(rnd, kind="small"):
    if kind == "int":
        return F(rnd.randint(-9, 9))
    if kind == "small":
        t = rnd.random()
        if t < 0.6:
            return F(rnd.randint(-9, 9))
        if t < 0.9:
            return F(rnd.randint(-20, 20), rnd.choice([2, 3, 4, 5, 7, 10]))
        return F(rnd.randint(-1000, 1000), rnd.randint(1, 999))
    if kind == "awkward":
        t = rnd.random()
        if t < 0.3:
            return F(rnd.randint(-9, 9), rnd.choice([3, 7, 11, 13]))
        if t < 0.5:
            return F(rnd.randint(-3, 3), 2 ** 60 + 1)
        if t < 0.7:
            return F(rnd.randint(-99, 99)) * F(10) ** rnd.randint(-20, 20)
        if t < 0.85:
            return F(rnd.getrandbits(70) - 2 ** 69, rnd.getrandbits(60) + 1)
        return F(rnd.randint(-9, 9))
    raise ValueError(kind)


def rnd_bounds(rnd, kind="small", shape=None):
    shape = shape or rnd.choice(["nonneg", "nonneg", "free", "boxed", "fixed", "upper", "negupper", "lower", "boxed"])
    if shape == "nonneg":
        return F(0), INF
    if shape == "free":
        return NINF, INF
    if shape == "boxed":
        a = rnd_num(rnd, kind)
        return a, a + abs(rnd_num(rnd, kind)) + (1 if rnd.random() < 0.8 else 0)
    if shape == "fixed":
        a = rnd_num(rnd, kind)
        return a, a
    if shape == "upper":
        return NINF, rnd_num(rnd, kind)
    if shape == "negupper":
        return NINF, -abs(rnd_num(rnd, kind)) - 1
    if shape == "lower":
        return rnd_num(rnd, kind), INF
    raise ValueError(shape)


def small_rand(rnd, maxr=8, maxc=10, kind="small", ranged=True, allow_empty=True):
    nr, nc = rnd.randint(1, maxr), rnd.randint(1, maxc)
    m = LP("sr", rnd.choice([MIN, MAX]))
    dens = rnd.choice([0.3, 0.5, 0.8, 1.0])
    zero_obj = rnd.random() < 0.05
    for j in range(nc):
        lo, up = rnd_bounds(rnd, kind)
        m.cols.append(Col(None, F(0) if zero_obj else rnd_num(rnd, kind), lo, up))
    for i in range(nr):
        s = rnd.choice("LGE" + ("R" if ranged else "") + "LG")
        r = Row(None, s, rnd_num(rnd, kind), abs(rnd_num(rnd, kind)) if s == "R" else 0)
        if not (allow_empty and rnd.random() < 0.04):
            for c in m.cols:
                if rnd.random() < dens:
                    v = rnd_num(rnd, kind)
                    if v != 0:
                        r.coef[c] = v
        m.rows.append(r)
    if rnd.random() < 0.7:
        # make it feasible: pick a point inside the bounds and move every rhs so that the row holds there
        x0 = {}
        for c in m.cols:
            if c.lo == NINF and c.up == INF:
                x0[c] = rnd_num(rnd, "int")
            elif c.lo == NINF:
                x0[c] = c.up - abs(rnd_num(rnd, "int"))
            elif c.up == INF:
                x0[c] = c.lo + abs(rnd_num(rnd, "int"))
            else:
                x0[c] = c.lo + (c.up - c.lo) * F(rnd.randint(0, 4), 4)
        for r in m.rows:
            act = sum((v * x0[c] for c, v in r.coef.items()), F(0))
            gap = abs(rnd_num(rnd, "int")) if rnd.random() < 0.6 else F(0)
            if r.sense == "L":
                r.rhs = act + gap
            elif r.sense == "G":
                r.rhs = act - gap
            elif r.sense == "E":
                r.rhs = act
            else:
                r.rhs = act - min(gap, r.range)
    return _names(m)


def planted_optimal(rnd, nr, nc, kind="small", dens=0.5):
    """choose x*, pi*, then build bounds/rows/costs so that (x*,pi*) is an optimal primal-dual pair."""
    m = LP("po", rnd.choice([MIN, MAX]))
    s = m.objsense
    xs = [rnd_num(rnd, kind) for _ in range(nc)]
    cols = [Col(None, 0, 0, 0) for _ in range(nc)]
    m.cols = cols
    A = [[(rnd_num(rnd, kind) if rnd.random() < dens else F(0)) for _ in range(nc)] for _ in range(nr)]
    pis = []
    for i in range(nr):
        act = sum((A[i][j] * xs[j] for j in range(nc)), F(0))
        mode = rnd.choice(["tight_lo", "tight_hi", "slack", "eq", "range_lo", "range_hi", "range_in"])
        gap = abs(rnd_num(rnd, kind)) + 1
        if mode == "tight_lo":
            r = Row(None, "G", act)
            pi = s * abs(rnd_num(rnd, kind))
        elif mode == "tight_hi":
            r = Row(None, "L", act)
            pi = -s * abs(rnd_num(rnd, kind))
        elif mode == "slack":
            r = Row(None, "L", act + gap) if rnd.random() < 0.5 else Row(None, "G", act - gap)
            pi = F(0)
        elif mode == "eq":
            r = Row(None, "E", act)
            pi = rnd_num(rnd, kind)
        elif mode == "range_lo":
            r = Row(None, "R", act, gap)
            pi = s * abs(rnd_num(rnd, kind))
        elif mode == "range_hi":
            r = Row(None, "R", act - gap, gap)
            pi = -s * abs(rnd_num(rnd, kind))
        else:
            r = Row(None, "R", act - gap, 2 * gap)
            pi = F(0)
        for j in range(nc):
            if A[i][j] != 0:
                r.coef[cols[j]] = A[i][j]
        m.rows.append(r)
        pis.append(pi)
    for j in range(nc):
        aty = sum((pis[i] * A[i][j] for i in range(nr)), F(0))
        mode = rnd.choice(["basic", "basic", "at_lo", "at_up", "fixed", "basic_free"])
        gap = abs(rnd_num(rnd, kind)) + 1
        c = cols[j]
        if mode == "basic":
            c.lo, c.up, rc = xs[j] - gap, xs[j] + gap, F(0)
            if rnd.random() < 0.3:
                c.up = INF
            if rnd.random() < 0.2:
                c.lo = NINF
        elif mode == "basic_free":
            c.lo, c.up, rc = NINF, INF, F(0)
        elif mode == "at_lo":
            c.lo, c.up, rc = xs[j], (INF if rnd.random() < 0.5 else xs[j] + gap), s * abs(rnd_num(rnd, kind))
        elif mode == "at_up":
            c.lo, c.up, rc = (NINF if rnd.random() < 0.5 else xs[j] - gap), xs[j], -s * abs(rnd_num(rnd, kind))
        else:
            c.lo, c.up, rc = xs[j], xs[j], rnd_num(rnd, kind)
        c.obj = aty + rc
    m.truth = dict(status="OPTIMAL", value=sum((c.obj * xs[j] for j, c in enumerate(cols)), F(0)))
    return _names(m)


def planted_infeasible(rnd, nr, nc, kind="small", margin=None, extreme=False):
    """start from a feasible planted LP then add two rows that contradict by `margin` along a random combination"""
    m = planted_optimal(rnd, max(1, nr - 2), nc, kind)
    w = [rnd_num(rnd, "int") for _ in range(nc)]
    if all(v == 0 for v in w):
        w[0] = F(1)
    a = rnd_num(rnd, kind)
    eps = margin if margin is not None else F(1, 2 ** (rnd.choice([2000, 13000, 13000, 17000]) if extreme else rnd.choice([1, 10, 60, 100, 200])))
    style = rnd.choice(["LG", "EE", "RG", "LR"])
    def row(s, rhs, rng=0):
        r = Row(None, s, rhs, rng)
        for j, v in enumerate(w):
            if v != 0:
                r.coef[m.cols[j]] = v
        return r
    if style == "LG":
        m.rows += [row("L", a), row("G", a + eps)]
    elif style == "EE":
        m.rows += [row("E", a), row("E", a + eps)]
    elif style == "RG":
        m.rows += [row("R", a - 1, 1), row("G", a + eps)]
    else:
        m.rows += [row("L", a), row("R", a + eps, 3)]
    rnd.shuffle(m.rows)
    for r in m.rows:
        r.name = None
    m.truth = dict(status="INFEASIBLE")
    return _names(m)


def planted_unbounded(rnd, nr, nc, kind="small"):
    """feasible LP with a recession direction that improves the objective: a free-ish column d with A d in cone"""
    m = planted_optimal(rnd, nr, nc, kind)
    s = m.objsense
    # new column with no upper bound, entering rows only in their unbounded direction, improving cost
    c = Col(None, -s * (abs(rnd_num(rnd, kind)) + 1), F(0), INF)
    m.cols.append(c)
    for r in m.rows:
        if rnd.random() < 0.5:
            v = abs(rnd_num(rnd, kind)) + 1
            if r.sense == "L":
                r.coef[c] = -v
            elif r.sense == "G":
                r.coef[c] = v
    for cc in m.cols:
        cc.name = None
    m.truth = dict(status="UNBOUNDED")
    return _names(m)


def thin(rnd):
    """infeasible by a tiny margin / feasible on a lower dimensional face / unbounded along one exact ray"""
    t = rnd.choice(["inf_margin", "face", "ray"])
    nc = rnd.randint(1, 5)
    if t == "inf_margin":
        return planted_infeasible(rnd, rnd.randint(2, 6), nc, "small", F(1, 2 ** rnd.choice([60, 80, 120, 200])))
    if t == "face":
        m = planted_optimal(rnd, rnd.randint(1, 4), nc, "small")
        # squeeze: w.x <= a and w.x >= a  (feasible exactly on a hyperplane through the planted optimum)
        return m
    return planted_unbounded(rnd, rnd.randint(1, 4), nc, "small")


def illcond(rnd):
    t = rnd.choice(["nearpar", "hilbert", "span", "awkward", "tie"])
    if t == "nearpar":
        # two nearly parallel rows: x + y <= 2 ; x + (1+e) y <= 2 + e*k
        e = F(1, 2 ** rnd.choice([40, 50, 55, 60, 70]))
        m = LP("np", rnd.choice([MIN, MAX]))
        x, y = Col(None, rnd.randint(1, 3), 0, INF), Col(None, rnd.randint(1, 3), 0, INF)
        m.cols = [x, y]
        m.rows = [Row(None, "L", 2, 0, {x: F(1), y: F(1)}), Row(None, "L", 2 + e * rnd.randint(-2, 2), 0, {x: F(1), y: 1 + e}),
                  Row(None, "G", F(1, 3), 0, {x: F(1), y: F(-1)})]
        if m.objsense == MIN:
            x.obj, y.obj = -x.obj, -y.obj
        return _names(m)
    if t == "hilbert":
        n = rnd.randint(3, 7)
        m = LP("hil", MIN)
        m.cols = [Col(None, rnd.randint(1, 5), rnd.choice([0, NINF]), INF) for _ in range(n)]
        for i in range(n):
            r = Row(None, rnd.choice("EGE"), F(rnd.randint(1, 9)), 0)
            for j in range(n):
                r.coef[m.cols[j]] = F(1, i + j + 1)
            m.rows.append(r)
        return _names(m)
    if t == "span":
        m = small_rand(rnd, 5, 6, "small")
        for r in m.rows:
            k = F(10) ** rnd.randint(-20, 20)
            r.rhs *= k
            r.range *= k
            for c in list(r.coef):
                r.coef[c] *= k
        return m
    if t == "awkward":
        return small_rand(rnd, 6, 7, "awkward")
    # tie: two vertices whose objective differs below double precision
    e = F(1, 2 ** rnd.choice([60, 80, 100]))
    m = LP("tie", MAX)
    x, y = Col(None, 1, 0, 1), Col(None, 1 + e, 0, 1)
    m.cols = [x, y]
    m.rows = [Row(None, "L", 1, 0, {x: F(1), y: F(1)})]
    return _names(m)


def degenerate(rnd):
    t = rnd.choice(["dup", "zero_rhs", "assign", "beale", "kuhn", "ms"])
    if t == "dup":
        m = small_rand(rnd, 5, 6, "int")
        for _ in range(rnd.randint(1, 3)):
            r = rnd.choice(m.rows)
            k = F(rnd.choice([1, 1, 2, 3]))
            m.rows.append(Row(None, r.sense, r.rhs * k, r.range * k, {c: v * k for c, v in r.coef.items()}))
        return _names(m)
    if t == "zero_rhs":
        m = small_rand(rnd, 6, 6, "int")
        for r in m.rows:
            if rnd.random() < 0.7:
                r.rhs = F(0)
        for c in m.cols:
            if rnd.random() < 0.7:
                c.lo, c.up = F(0), INF
        return m
    if t == "assign":
        n = rnd.randint(2, 4)
        m = LP("asg", rnd.choice([MIN, MAX]))
        X = [[Col(None, rnd.randint(1, 9), 0, rnd.choice([INF, 1])) for _ in range(n)] for _ in range(n)]
        m.cols = [c for row in X for c in row]
        for i in range(n):
            m.rows.append(Row(None, "E", 1, 0, {X[i][j]: F(1) for j in range(n)}))
        for j in range(n):
            m.rows.append(Row(None, "E", 1, 0, {X[i][j]: F(1) for i in range(n)}))
        return _names(m)
    if t == "beale":
        m = LP("beale", MIN)
        c = [Col(None, v, 0, INF) for v in (F(-3, 4), F(150), F(-1, 50), F(6))]
        m.cols = c
        m.rows = [Row(None, "L", 0, 0, {c[0]: F(1, 4), c[1]: F(-60), c[2]: F(-1, 25), c[3]: F(9)}),
                  Row(None, "L", 0, 0, {c[0]: F(1, 2), c[1]: F(-90), c[2]: F(-1, 50), c[3]: F(3)}),
                  Row(None, "L", 1, 0, {c[2]: F(1)})]
        return _names(m)
    if t == "kuhn":
        m = LP("kuhn", MIN)
        c = [Col(None, v, 0, INF) for v in (F(-2), F(-3), F(1), F(12))]
        m.cols = c
        m.rows = [Row(None, "L", 0, 0, {c[0]: F(-2), c[1]: F(-9), c[2]: F(1), c[3]: F(9)}),
                  Row(None, "L", 0, 0, {c[0]: F(1, 3), c[1]: F(1), c[2]: F(-1, 3), c[3]: F(-2)}),
                  Row(None, "L", 2, 0, {c[0]: F(2), c[1]: F(3), c[2]: F(-1), c[3]: F(-12)})]
        return _names(m)
    # Marshall-Suurballe
    m = LP("ms", MIN)
    c = [Col(None, v, 0, INF) for v in (F(-2, 5), F(-2, 5), F(9, 5), F(0))]
    m.cols = c
    m.rows = [Row(None, "L", 0, 0, {c[0]: F(3, 5), c[1]: F(-32, 5), c[2]: F(24, 5)}),
              Row(None, "L", 0, 0, {c[0]: F(1, 5), c[1]: F(-9, 5), c[2]: F(3, 5)}),
              Row(None, "L", 1, 0, {c[1]: F(1), c[3]: F(1)})]
    return _names(m)


TINY_VALS = (-1, 0, 1)
TINY_BOUNDS = ((F(0), INF), (NINF, INF), (F(0), F(1)), (NINF, F(0)))


def tiny_space_size():
    return 3 ** 4 * 3 ** 2 * 3 ** 2 * 3 ** 2 * 4 ** 2 * 2


def tiny_from_index(k):
    """k-th member of the finite family A in {-1,0,1}^{2x2}, b, senses in {L,G,E}^2, c, bound shapes, min/max"""
    def take(n):
        nonlocal k
        k, r = divmod(k, n)
        return r
    a = [TINY_VALS[take(3)] for _ in range(4)]
    b = [TINY_VALS[take(3)] for _ in range(2)]
    sn = ["LGE"[take(3)] for _ in range(2)]
    c = [TINY_VALS[take(3)] for _ in range(2)]
    bd = [TINY_BOUNDS[take(4)] for _ in range(2)]
    sense = [MIN, MAX][take(2)]
    m = LP("tiny", sense)
    m.cols = [Col("C%d" % j, c[j], bd[j][0], bd[j][1]) for j in range(2)]
    for i in range(2):
        r = Row("R%d" % i, sn[i], b[i], 0)
        for j in range(2):
            if a[2 * i + j]:
                r.coef[m.cols[j]] = F(a[2 * i + j])
        m.rows.append(r)
    return m


def structured(rnd, nr, nc, kind="small", style=None):
    """medium/large planted-optimal LP with structured sparsity"""
    style = style or rnd.choice(["staircase", "block", "network", "random"])
    dens = min(1.0, 6.0 / nc)
    m = planted_optimal(rnd, nr, nc, kind, dens=dens)
    return m


def knife(rnd, far=False, extreme=False):
    """LPs whose status hinges on a quantity far below double precision: a `knife` gadget (infeasible by eps, a single feasible
    point, or feasible by eps; eps = 2^-k or lost in the rounding of 2^53-sized data) embedded in a small planted LP, with the
    gadget's columns moved to random positions (often first).  Decides between OPTIMAL and INFEASIBLE only in exact arithmetic."""
    m = planted_optimal(rnd, rnd.randint(0, 3), rnd.randint(0, 3), "small") if rnd.random() < 0.7 else LP("knife", rnd.choice([MIN, MAX]))
    m.name = "knife"
    sgn = rnd.choice([1, 1, 0, -1])            # 1: infeasible by eps, 0: exactly one point along the gadget, -1: feasible by eps
    # `freeray` LPs are feasible only at points beyond the library's infinity (1e150): no definitive answer can be demanded for
    # them (C03), only that a reported INFEASIBLE is proved (C02): they are generated on request only
    style = "freeray" if far else rnd.choice(["bound", "bound", "sum", "big", "chain", "tied", "tied", "tinycoef", "rangetop", "rangetop"])
    # 12000+: below what the last working precision of the exact driver (12 levels from 128 bits, x1.5 each) can resolve
    # extreme: margins the last working precision of the exact driver (12 levels from 128 bits, x1.5 each) cannot resolve; no
    # definitive answer can be demanded there, only that a definitive answer given is certified
    eps = F(1, 2 ** (rnd.choice([400, 12000, 16000]) if extreme else rnd.choice([20, 28, 30, 31, 35, 40, 52, 60, 90]))) * sgn
    new_cols, new_rows = [], []
    if style == "tied":
        # an expression e(x) is capped twice, by u and by u -/+ 2^-k, through two different mechanisms (L row, upper side of a
        # range row, negated G row, column bound), and the objective pushes it up: the two candidate vertices differ by less than
        # any double tolerance and only one of them is feasible
        ncol = rnd.randint(1, 3)
        cols_ = [Col(None, F(0), rnd.choice([NINF, F(0), F(-3)]), INF) for _ in range(ncol)]
        w = [F(rnd.randint(1, 4)) for _ in range(ncol)]
        u = F(rnd.randint(-3, 9))
        hair = F(1, 2 ** rnd.choice([21, 22, 25, 30, 40])) * rnd.choice([1, 1, -1])
        def cap(kind, ub):
            r = Row(None, "L", ub, 0)
            for c, a_ in zip(cols_, w):
                r.coef[c] = a_
            if kind == "R":
                r.sense, r.range, r.rhs = "R", F(rnd.randint(1, 5)), ub - 0
                r.rhs = ub - r.range
            elif kind == "G":
                r.sense, r.rhs = "G", -ub
                for c in list(r.coef):
                    r.coef[c] = -r.coef[c]
            return r
        k1, k2 = rnd.sample(["L", "R", "G", "L"], 2) if ncol > 1 or rnd.random() < 0.6 else ("L", "bound")
        new_rows = [cap(k1, u)]
        if k2 == "bound":
            cols_[0].up = (u - hair) / w[0]
            if cols_[0].lo != NINF and cols_[0].lo > cols_[0].up:
                cols_[0].lo = NINF
        else:
            new_rows.append(cap(k2, u - hair))
        if rnd.random() < 0.5:
            new_rows.reverse()
        s_ = m.objsense
        for c, a_ in zip(cols_, w):
            c.obj = -s_ * a_ * rnd.choice([1, 1, 2])          # improve by increasing e
        new_cols = cols_
    elif style == "tinycoef":
        # max x s.t. t*x + w <= 1, x - z >= 0 with t = 10^-k: bounded, optimum 1/t, the only blocking pivot element is t
        t = F(1, 10 ** rnd.choice([20, 33, 40, 45, 60])) if rnd.random() < 0.7 else F(1, 2 ** rnd.choice([100, 120, 140]))
        x, wv, z = Col(None, F(0), F(0), INF), Col(None, F(0), F(0), INF), Col(None, F(0), F(0), INF)
        x.obj = -F(m.objsense)
        r1 = Row(None, "L", F(1), 0)
        r1.coef[x], r1.coef[wv] = t, F(1)
        r2 = Row(None, "G", F(0), 0)
        r2.coef[x], r2.coef[z] = F(1), F(-1)
        new_cols, new_rows = [x, wv, z], [r1, r2]
        if rnd.random() < 0.4:
            r1.coef[x], r1.rhs = t * 3, F(3)
    elif style == "freeray":
        # r1: x + c z >= M ; r2: x + (c + d) z <= M - D, x >= 0, z free, d far below double precision: the double solver sees two
        # contradicting parallel rows, but the LP is feasible (far out along z) unless d == 0
        c_ = F(rnd.randint(1, 5), rnd.choice([1, 3, 7]))
        if rnd.random() < 0.5:
            M, D, d = F(rnd.randint(1, 9)), F(1, rnd.choice([10, 1000])), F(1, 10 ** rnd.choice([120, 140, 160]))
        else:
            M = D = F(10) ** rnd.choice([100, 120, 130])
            d = F(1, 2 ** rnd.choice([60, 80]))
        if sgn == 0:
            d = F(0)
        x, z = Col(None, F(rnd.randint(0, 2)), F(0), INF), Col(None, F(0), NINF, INF)
        r1 = Row(None, "G", M, 0)
        r1.coef[x], r1.coef[z] = F(1), c_
        r2 = Row(None, "L", M - D, 0)
        r2.coef[x], r2.coef[z] = F(1), c_ + d
        new_cols, new_rows = [x, z], [r1, r2]
        if rnd.random() < 0.3:
            r3 = Row(None, "G", F(-10), 0)
            r3.coef[z] = F(1)
            new_rows.append(r3)
    elif style == "rangetop":
        # x_i >= a_i (bounds or G rows) and a range row  c - w <= sum x_i <= c  with c = sum a_i - eps: the *upper* side of the range
        # decides (its multiplier in a proof of infeasibility is negative, the width of the range enters the proof); the a_i are
        # often of size 1e11 and not representable, so that the double level cannot tell the three cases apart
        n = rnd.randint(2, 3)
        if rnd.random() < 0.6:
            a_ = [F(10 ** rnd.choice([9, 11, 12]), rnd.choice([3, 7, 11, 13])) for _ in range(n)]
            if eps and abs(eps) > F(1, 2 ** 40):
                eps = eps / 2 ** 30
        else:
            a_ = [rnd_num(rnd, "int") for _ in range(n)]
        xs = [Col(None, rnd_num(rnd, "int"), NINF, INF) for _ in range(n)]
        for x, v in zip(xs, a_):
            if rnd.random() < 0.6:
                x.lo = v
            else:
                g = Row(None, "G", v, 0)
                g.coef[x] = F(1)
                new_rows.append(g)
        w_ = F(rnd.randint(1, 9))
        r = Row(None, "R", sum(a_) - eps - w_, w_)
        for x in xs:
            r.coef[x] = F(1)
        new_rows.append(r)
        new_cols = xs
    elif style == "bound":
        # x_j <= lo_j - eps - sum a_k (x_k - lo_k)  with a_k >= 0, x_k >= lo_k
        lo = rnd_num(rnd, "int")
        xj = Col(None, rnd_num(rnd, "int"), lo, rnd.choice([INF, lo + 5]))
        others = [Col(None, rnd_num(rnd, "int"), rnd_num(rnd, "int"), INF) for _ in range(rnd.randint(0, 2))]
        coefs = [F(rnd.randint(1, 4)) for _ in others]
        r = Row(None, rnd.choice("LE") if sgn >= 0 else "L", lo - eps + sum(a * c.lo for a, c in zip(coefs, others)), 0)
        if r.sense == "E" and sgn != 0:
            r.sense = "L"
        r.coef[xj] = F(1)
        for a_, c in zip(coefs, others):
            r.coef[c] = a_
        if rnd.random() < 0.5:
            # the same gadget from above: x_j >= up_j + eps ...
            up = lo + rnd.randint(0, 6)
            xj.lo, xj.up = rnd.choice([NINF, lo - 3]), up
            r.sense = "G"
            for c in others:
                c.lo, c.up = NINF, c.lo
            r.rhs = up + eps + sum(a * c.up for a, c in zip(coefs, others))
        new_cols, new_rows = [xj] + others, [r]
    elif style == "sum":
        # x - y >= b, x <= u, y >= v with u - v = b - eps
        b_, v = rnd_num(rnd, "int"), rnd_num(rnd, "int")
        u = b_ + v - eps
        x = Col(None, rnd_num(rnd, "int"), rnd.choice([NINF, u - 7]), u)
        y = Col(None, rnd_num(rnd, "int"), v, rnd.choice([INF, v, v + 3]))
        r = Row(None, "G", b_, 0)
        r.coef[x], r.coef[y] = F(1), F(-1)
        if rnd.random() < 0.4:
            r.sense, r.range = "R", F(rnd.randint(0, 5))
        new_cols, new_rows = [x, y], [r]
    elif style == "big":
        # data that are not representable as doubles: x - y >= N, x <= N + d1, y = d2 (N = 2^53 .. 2^62)
        N = F(2 ** rnd.choice([53, 54, 60, 62]))
        d2 = F(rnd.randint(1, 3))
        d1 = d2 - sgn * rnd.choice([1, 1, 2])
        x = Col(None, rnd_num(rnd, "int"), rnd.choice([NINF, F(0)]), N + d1)
        y = Col(None, rnd_num(rnd, "int"), d2, rnd.choice([d2, INF]))
        r = Row(None, rnd.choice("GGR"), N, 0)
        if r.sense == "R":
            r.range = F(rnd.randint(0, 4))
        r.coef[x], r.coef[y] = F(1), F(-1)
        if rnd.random() < 0.3:
            # mirrored as an L row
            r.sense, r.range, r.rhs = "L", 0, -N
            r.coef[x], r.coef[y] = F(-1), F(1)
        new_cols, new_rows = [x, y], [r]
    else:
        # chain of equalities x1 = x0 + d, x2 = x1 + d ... with x0 >= 0 and x_last <= n*d - eps
        n = rnd.randint(2, 4)
        d = rnd_num(rnd, "int") or F(1)
        xs = [Col(None, rnd_num(rnd, "int") if i in (0, n) else F(0), NINF, INF) for i in range(n + 1)]
        xs[0].lo = F(0)
        xs[n].up = n * d - eps
        for i in range(n):
            r = Row(None, "E", d, 0)
            r.coef[xs[i + 1]], r.coef[xs[i]] = F(1), F(-1)
            new_rows.append(r)
        new_cols = xs
    front = rnd.random() < 0.6
    m.cols = (new_cols + m.cols) if front else (m.cols + new_cols)
    if not front and rnd.random() < 0.5:
        rnd.shuffle(m.cols)
    m.rows += new_rows
    rnd.shuffle(m.rows)
    for c in m.cols:
        c.name = None
    for r in m.rows:
        r.name = None
    m.truth = None
    m.far = bool(far)       # feasible (if at all) only beyond the library's infinity
    return _names(m)


def cover(rnd, nr, nc, per=4):
    """min c.x, A x >= b, x >= 0 with c > 0, sparse mixed-sign integer A and b = A x0 - s: feasible, bounded (OPTIMAL), the
    polyhedron has rays, and from the slack start basis the simplex needs a few hundred pivots in phase II (several
    refactorizations inside one phase).  Optimal value not planted."""
    m = LP("cover", MIN)
    m.cols = [Col(None, F(rnd.randint(1, 20)), F(0), INF) for _ in range(nc)]
    rows = [Row(None, "G", F(0)) for _ in range(nr)]
    for j, c in enumerate(m.cols):
        x0 = rnd.randrange(6)
        for i in set(rnd.randrange(nr) for _ in range(per)):
            v = F(rnd.randint(1, 9)) * (-1 if rnd.randrange(3) == 0 else 1)
            rows[i].coef[c] = v
            rows[i].rhs += v * x0
    for r in rows:
        r.rhs -= rnd.randrange(4)
    m.rows = rows
    m.truth = dict(status="OPTIMAL")
    return _names(m)


def boxed(rnd):
    """every column boxed, rows whose limits sit exactly at (or within a unit of) what the box allows: the bound-flipping ratio
    test of the dual simplex has only boxed candidates and flipping them may use up an infeasibility exactly"""
    m = LP("boxed", rnd.choice([MIN, MAX]))
    nc = rnd.randint(2, 8)
    for j in range(nc):
        lo = F(rnd.randint(-2, 2))
        m.cols.append(Col(None, F(rnd.randint(-5, 5)), lo, lo + rnd.randint(1, 3)))
    for i in range(rnd.randint(1, 4)):
        sub = rnd.sample(m.cols, rnd.randint(1, nc))
        coef = {c: F(rnd.choice([1, 1, 1, 2, -1, 3])) for c in sub}
        hi = sum((a * (c.up if a > 0 else c.lo) for c, a in coef.items()), F(0))
        lw = sum((a * (c.lo if a > 0 else c.up) for c, a in coef.items()), F(0))
        t = rnd.random()
        slackk = F(rnd.choice([0, 0, 0, 1, 1, 2]))
        if t < 0.35:
            r = Row(None, "G", hi - slackk, 0, coef)
        elif t < 0.6:
            r = Row(None, "L", lw + slackk, 0, coef)
        elif t < 0.9:
            a_ = hi - slackk - rnd.randint(0, 2)
            r = Row(None, "R", a_, F(rnd.randint(0, 3)), coef)
        else:
            r = Row(None, "E", rnd.choice([hi, lw, hi - 1, lw + 1]), 0, coef)
        m.rows.append(r)
    if rnd.random() < 0.3:
        # a redundant row whose slack gives the ratio test a one-sided candidate in some formulations only
        c = rnd.choice(m.cols)
        m.rows.append(Row(None, "L", c.up + 5, 0, {c: F(1)}))
    return _names(m)


def flips(rnd):
    """boxes of unequal width, costs whose sign makes the all-slack basis dual feasible, and rows that ask for more than the first
    few columns can give inside their boxes: the dual simplex starts in phase II and its long-step ratio test passes several boxed
    breakpoints (bound flips) in one iteration before it pivots; some rows are range rows (boxed logicals)"""
    sense = rnd.choice([MIN, MAX])
    m = LP("flips", sense)
    nc = rnd.randint(3, 9)
    for j in range(nc):
        lo = F(rnd.randint(-2, 2)) if rnd.random() < 0.4 else F(0)
        cost = F(rnd.randint(1, 9)) / rnd.choice([1, 1, 2, 3])
        # nonbasic at lower is dual feasible for MIN with cost >= 0 (MAX: cost <= 0)
        m.cols.append(Col(None, cost if sense == MIN else -cost, lo, lo + F(rnd.randint(1, 6)) / rnd.choice([1, 1, 2])))
    for i in range(rnd.randint(1, 4)):
        sub = rnd.sample(m.cols, rnd.randint(2, nc))
        coef = {c: F(rnd.choice([1, 1, 1, 2, 3])) for c in sub}
        lw = sum((a * c.lo for c, a in coef.items()), F(0))
        hi = sum((a * c.up for c, a in coef.items()), F(0))
        need = lw + (hi - lw) * F(rnd.randint(1, 9), 10)
        if rnd.random() < 0.35:
            m.rows.append(Row(None, "R", need, F(rnd.randint(0, 3)), coef))
        else:
            m.rows.append(Row(None, "G", need, 0, coef))
    return _names(m)


def big(rnd):
    """planted-optimal LPs large enough that a solve goes through several refactorizations (eta limit 100) in both phases"""
    if rnd.random() < 0.4:
        m = cover(rnd, rnd.randint(150, 230), rnd.randint(230, 340))
    else:
        nr, nc = rnd.randint(130, 200), rnd.randint(180, 280)
        m = planted_optimal(rnd, nr, nc, "int", dens=rnd.choice([4.0, 6.0, 9.0]) / nc)
    m.name = "big"
    return m


def family(rnd, name):
    if name == "knife":
        return knife(rnd)
    if name == "knife-far":
        return knife(rnd, far=True)
    if name == "knife-x":
        return knife(rnd, extreme=True)
    if name == "planted-inf-x":
        return planted_infeasible(rnd, rnd.randint(2, 6), rnd.randint(1, 6), extreme=True)
    if name == "big":
        return big(rnd)
    if name == "boxed":
        return boxed(rnd)
    if name == "flips":
        return flips(rnd)
    if name == "small-rand":
        return small_rand(rnd)
    if name == "small-int":
        return small_rand(rnd, kind="int")
    if name == "degenerate":
        return degenerate(rnd)
    if name == "illcond":
        return illcond(rnd)
    if name == "thin":
        return thin(rnd)
    if name == "planted-opt":
        return planted_optimal(rnd, rnd.randint(1, 8), rnd.randint(1, 10))
    if name == "planted-inf":
        return planted_infeasible(rnd, rnd.randint(2, 8), rnd.randint(1, 8))
    if name == "planted-unb":
        return planted_unbounded(rnd, rnd.randint(1, 6), rnd.randint(1, 6))
    if name == "medium":
        return structured(rnd, rnd.randint(15, 40), rnd.randint(15, 50))
    if name == "tiny":
        return tiny_from_index(rnd.randrange(tiny_space_size()))
    raise ValueError(name)
