"""Exact certificate checkers (O-cert, O-farkas, O-ray).  All arithmetic in Fractions; infinite bounds are +-inf floats
and never enter an arithmetic expression."""
from fractions import Fraction
from .rat import INF, NINF, isinf

Z = Fraction(0)


def activities(m, x):
    ci = m.colindex()
    out = []
    for r in m.rows:
        s = Z
        for c, v in r.coef.items():
            s += v * x[ci[c]]
        out.append(s)
    return out


def check_primal(m, x):
    bad = []
    if len(x) < m.ncols:
        return ["x has %d entries, need %d" % (len(x), m.ncols)]
    for j, c in enumerate(m.cols):
        if isinf(x[j]):
            bad.append("x[%d] infinite" % j)
            return bad
        if x[j] < c.lo or x[j] > c.up:
            bad.append("bound violated: x[%d]=%s not in [%s,%s]" % (j, x[j], c.lo, c.up))
    act = activities(m, x)
    for i, r in enumerate(m.rows):
        lo, hi = r.lohi()
        if act[i] < lo or act[i] > hi:
            bad.append("row %d violated: a.x=%s not in [%s,%s] (sense %s)" % (i, act[i], lo, hi, r.sense))
    return bad


def expected_slack(m, x):
    act = activities(m, x)
    return [(r.rhs - act[i]) if r.sense in ("L", "E") else (act[i] - r.rhs) for i, r in enumerate(m.rows)]


def reduced_costs(m, pi):
    ci = m.colindex()
    rc = [c.obj for c in m.cols]
    for i, r in enumerate(m.rows):
        if pi[i] != 0:
            for c, v in r.coef.items():
                rc[ci[c]] -= pi[i] * v
    return rc


def check_optimal(m, value, x, pi, rc=None, slack=None):
    """complete exact optimality certificate; returns list of failed clauses"""
    bad = check_primal(m, x)
    if bad:
        return bad
    if len(pi) < m.nrows:
        return ["pi has %d entries, need %d" % (len(pi), m.nrows)]
    s = m.objsense  # +1 min, -1 max
    act = activities(m, x)
    erc = reduced_costs(m, pi)
    if rc is not None:
        for j in range(m.ncols):
            if rc[j] != erc[j]:
                bad.append("rc[%d]=%s != c - A^T pi = %s" % (j, rc[j], erc[j]))
    if slack is not None:
        es = expected_slack(m, x)
        for i in range(m.nrows):
            if slack[i] != es[i]:
                bad.append("slack[%d]=%s != %s" % (i, slack[i], es[i]))
    for j, c in enumerate(m.cols):
        d = s * erc[j]
        if d > 0 and not (not isinf(c.lo) and x[j] == c.lo):
            bad.append("dual sign: col %d reduced cost %s needs x at finite lower (x=%s, l=%s)" % (j, erc[j], x[j], c.lo))
        if d < 0 and not (not isinf(c.up) and x[j] == c.up):
            bad.append("dual sign: col %d reduced cost %s needs x at finite upper (x=%s, u=%s)" % (j, erc[j], x[j], c.up))
    for i, r in enumerate(m.rows):
        lo, hi = r.lohi()
        d = s * pi[i]
        if d > 0 and not (not isinf(lo) and act[i] == lo):
            bad.append("dual sign: row %d pi %s needs activity at finite lower side (a.x=%s, lo=%s)" % (i, pi[i], act[i], lo))
        if d < 0 and not (not isinf(hi) and act[i] == hi):
            bad.append("dual sign: row %d pi %s needs activity at finite upper side (a.x=%s, hi=%s)" % (i, pi[i], act[i], hi))
    cx = sum((c.obj * x[j] for j, c in enumerate(m.cols)), Z)
    if value is not None and cx != value:
        bad.append("objective value %s != c.x = %s" % (value, cx))
    # dual objective (by bounds) equals primal objective: implied by the clauses above; computed as a cross-check
    if not bad:
        dobj = Z
        for i, r in enumerate(m.rows):
            if pi[i] != 0:
                dobj += pi[i] * act[i]
        for j in range(m.ncols):
            if erc[j] != 0:
                dobj += erc[j] * x[j]
        if dobj != cx:
            bad.append("dual objective %s != primal %s" % (dobj, cx))
    return bad


def farkas_intervals(m, y):
    """returns (Lrow, Urow, Lcol, Ucol): y^T A x lies in [Lrow,Urow] by the rows and in [Lcol,Ucol] by the column bounds"""
    ci = m.colindex()
    Lr = Ur = Z
    Lr_inf = Ur_inf = False
    for i, r in enumerate(m.rows):
        if y[i] == 0:
            continue
        lo, hi = r.lohi()
        a, b = (lo, hi) if y[i] > 0 else (hi, lo)  # min at a, max at b
        if isinf(a):
            Lr_inf = True
        else:
            Lr += y[i] * a
        if isinf(b):
            Ur_inf = True
        else:
            Ur += y[i] * b
    z = [Z] * m.ncols
    for i, r in enumerate(m.rows):
        if y[i] != 0:
            for c, v in r.coef.items():
                z[ci[c]] += y[i] * v
    Lc = Uc = Z
    Lc_inf = Uc_inf = False
    for j, c in enumerate(m.cols):
        if z[j] == 0:
            continue
        a, b = (c.lo, c.up) if z[j] > 0 else (c.up, c.lo)
        if isinf(a):
            Lc_inf = True
        else:
            Lc += z[j] * a
        if isinf(b):
            Uc_inf = True
        else:
            Uc += z[j] * b
    return (NINF if Lr_inf else Lr, INF if Ur_inf else Ur, NINF if Lc_inf else Lc, INF if Uc_inf else Uc)


def check_farkas(m, y):
    """y proves infeasibility iff the two intervals for y^T A x are disjoint (either orientation is a valid proof).
    A multiplier that leans on an infinite side makes the corresponding end infinite, so it can never help."""
    if len(y) < m.nrows:
        return ["y has %d entries, need %d" % (len(y), m.nrows)]
    if any(isinf(v) for v in y[:m.nrows]):
        return ["y has infinite entries"]
    Lr, Ur, Lc, Uc = farkas_intervals(m, y)
    if Lr > Uc or Ur < Lc:
        return []
    return ["Farkas vector proves nothing: rows give y^T A x in [%s,%s], bounds give [%s,%s]" % (Lr, Ur, Lc, Uc)]


def check_ray(m, x, d):
    """x feasible, d a recession direction with improving objective"""
    bad = check_primal(m, x)
    ci = m.colindex()
    for j, c in enumerate(m.cols):
        if d[j] > 0 and not isinf(c.up):
            bad.append("ray increases x[%d] with finite upper" % j)
        if d[j] < 0 and not isinf(c.lo):
            bad.append("ray decreases x[%d] with finite lower" % j)
    for i, r in enumerate(m.rows):
        ad = sum((v * d[ci[c]] for c, v in r.coef.items()), Z)
        lo, hi = r.lohi()
        if ad > 0 and not isinf(hi):
            bad.append("ray increases row %d with finite upper side" % i)
        if ad < 0 and not isinf(lo):
            bad.append("ray decreases row %d with finite lower side" % i)
    cd = sum((c.obj * d[j] for j, c in enumerate(m.cols)), Z)
    if not (m.objsense * cd < 0):
        bad.append("ray does not improve the objective (s*c.d=%s)" % (m.objsense * cd))
    return bad
